(** C06 — model of the incremental RETE engine: src/rete/working_memory.rs, the propagation and
    fire_all logic of src/rete/propagation.rs (after the repair "fire_all re-checks the condition on the
    matched fact", a666833), typed alpha evaluation of src/rete/alpha.rs / facts.rs on integer fields,
    and the agenda of Model/ReteAgenda.v.  Definitions only.

    Rust items modelled:
      working_memory.rs::WorkingMemory::{insert, update, retract, get, get_by_type, get_all_facts, to_typed_facts (per-handle keys)}
      propagation.rs::IncrementalEngine::{insert, update, retract (without TMS cascade: explicit facts only),
           propagate_changes_for_type, propagate_changes, fire_all, reset}
      network.rs::evaluate_rete_ul_node_typed (UlAlpha / UlAnd / UlOr / UlNot) ; facts.rs::FactValue::compare on integers
    Rules are single-type: a condition tree over the fields of one fact type; actions are what a GRL
    `then` part can do to working memory: nothing, assign a field of the rule's type (which the engine
    writes back to every live fact of that type), or retract the matched fact.
    HashSet iteration orders (affected rules, facts of a type, fact types) are modelled as ascending
    order; the harness only generates histories whose outcome does not depend on them (at most one live
    fact per type when actions have effects; order-insensitive comparison otherwise). *)
From RRE Require Import Base.Sx Generated.Consts Model.ReteAgenda.
Open Scope Z_scope.

Inductive cmp := CEq | CNe | CLt | CLe | CGt | CGe.
Inductive cond := CAtom (f : Z) (c : cmp) (k : Z) | CAnd (a b : cond) | COr (a b : cond) | CNot (a : cond).
Inductive action := ANop | ASet (f v : Z) | ARetract.

Definition data := list (Z * Z).
Fixpoint dget (d : data) (f : Z) : option Z := match d with [] => None | (k, v) :: r => if k =? f then Some v else dget r f end.
Fixpoint dset (d : data) (f v : Z) : data :=
  match d with [] => [(f, v)] | (k, x) :: r => if k =? f then (k, v) :: r else (k, x) :: dset r f v end.

Fixpoint eval (d : data) (c : cond) : bool :=
  match c with
  | CAtom f op k => match dget d f with
                    | None => false
                    | Some x => match op with CEq => x =? k | CNe => negb (x =? k) | CLt => x <? k | CLe => x <=? k | CGt => k <? x | CGe => k <=? x end
                    end
  | CAnd a b => eval d a && eval d b
  | COr a b => eval d a || eval d b
  | CNot a => negb (eval d a)
  end.

Record rule := { r_name : Z; r_type : Z; r_prio : Z; r_noloop : bool; r_cond : cond; r_action : action }.
Record fact := { f_h : Z; f_type : Z; f_data : data; f_retracted : bool }.

Record eng := { wm : list fact; next_h : Z; ag : agenda; seq : Z; rules : list rule }.

Definition init (rs : list rule) : eng := {| wm := []; next_h := 1; ag := ReteAgenda.init; seq := 0; rules := rs |}.

Definition live_fact (e : eng) (h : Z) : option fact := find (fun f => (f_h f =? h) && negb (f_retracted f)) (wm e).
Definition facts_of_type (e : eng) (t : Z) : list fact := filter (fun f => (f_type f =? t) && negb (f_retracted f)) (wm e).
Definition all_live (e : eng) : list fact := filter (fun f => negb (f_retracted f)) (wm e).

Definition mk_act (s : Z) (r : rule) (h : Z) : act :=
  {| a_id := s; a_name := r_name r; a_sal := r_prio r; a_agroup := None; a_group := main_group; a_noloop := r_noloop r;
     a_lock := false; a_autofocus := false; a_created := s |}.

(** the matched handle travels with the activation: the agenda model has no field for it, so the
    engine keeps a side table  activation id -> handle *)
Record engx := { e_ : eng; matched : list (Z * Z) }.

Definition add_matching (x : engx) (rs : list rule) (fs : list fact) (skip_fired_noloop : bool) : engx :=
  fold_left (fun x r =>
    if skip_fired_noloop && r_noloop r && memZ (r_name r) (fired_rules (ag (e_ x))) then x
    else fold_left (fun x f =>
           if (f_type f =? r_type r) && eval (f_data f) (r_cond r) then
             let e := e_ x in
             {| e_ := {| wm := wm e; next_h := next_h e; ag := add_activation (ag e) (mk_act (seq e) r (f_h f)); seq := seq e + 1; rules := rules e |};
                matched := (seq e, f_h f) :: matched x |}
           else x) fs x) rs x.

(** propagate_changes_for_type *)
Definition propagate_type (x : engx) (t : Z) : engx :=
  add_matching x (filter (fun r => r_type r =? t) (rules (e_ x))) (facts_of_type (e_ x) t) false.
(** propagate_changes: every fact type present, every rule (skipping no-loop rules that fired) *)
Definition types_present (e : eng) : list Z :=
  fold_left (fun a f => if memZ (f_type f) a then a else a ++ [f_type f]) (all_live e) [].
Definition propagate_all (x : engx) : engx :=
  fold_left (fun x t => add_matching x (rules (e_ x)) (facts_of_type (e_ x) t) true) (types_present (e_ x)) x.

Definition with_wm (x : engx) (w : list fact) : engx :=
  {| e_ := {| wm := w; next_h := next_h (e_ x); ag := ag (e_ x); seq := seq (e_ x); rules := rules (e_ x) |}; matched := matched x |}.

Definition do_insert (x : engx) (t : Z) (d : data) : engx * Z :=
  let e := e_ x in
  let h := next_h e in
  let x1 := {| e_ := {| wm := wm e ++ [{| f_h := h; f_type := t; f_data := d; f_retracted := false |}]; next_h := h + 1;
                       ag := ag e; seq := seq e; rules := rules e |}; matched := matched x |} in
  (propagate_type x1 t, h).

Definition do_update (x : engx) (h : Z) (d : data) : engx * bool :=
  match live_fact (e_ x) h with
  | None => (x, false)
  | Some f => (propagate_type (with_wm x (map (fun g => if (f_h g =? h) && negb (f_retracted g)
                                                        then {| f_h := h; f_type := f_type g; f_data := d; f_retracted := false |} else g) (wm (e_ x))))
                              (f_type f), true)
  end.

Definition do_retract (x : engx) (h : Z) : engx * bool :=
  match live_fact (e_ x) h with
  | None => (x, false)
  | Some f => (propagate_type (with_wm x (map (fun g => if f_h g =? h then {| f_h := h; f_type := f_type g; f_data := f_data g; f_retracted := true |} else g) (wm (e_ x))))
                              (f_type f), true)
  end.

(** a firing record: rule, matched handle, the matched fact's contents at that moment *)
Record firing := { fi_rule : Z; fi_h : Z; fi_data : data }.

(** apply an action's effect on working memory, the way fire_all does: a changed "Type.field" is
    written back to every live fact of that type; Retract goes through process_action_results *)
Definition apply_action (x : engx) (r : rule) (h : Z) : engx :=
  match r_action r with
  | ANop => x
  | ASet f v =>
      (* a change is detected only if some live fact of the type has a different value for f, or none has it:
         the flattened copy holds the LAST live fact's value under "Type.f" *)
      match rev (facts_of_type (e_ x) (r_type r)) with
      | [] => x
      | lastf :: _ =>
          if match dget (f_data lastf) f with Some old => old =? v | None => false end then x
          else with_wm x (map (fun g => if (f_type g =? r_type r) && negb (f_retracted g)
                                        then {| f_h := f_h g; f_type := f_type g; f_data := dset (f_data g) f v; f_retracted := false |} else g) (wm (e_ x)))
      end
  | ARetract => x        (* applied after propagate_changes, see below *)
  end.

Fixpoint fire_loop (fuel : nat) (iter : N) (x : engx) (out : list firing) : engx * list firing :=
  match fuel with
  | O => (x, out)
  | S fu =>
      let e := e_ x in
      let '(a1, r) := get_next (S (length (stack (ag e)))) (ag e) in
      let x1 := {| e_ := {| wm := wm e; next_h := next_h e; ag := a1; seq := seq e; rules := rules e |}; matched := matched x |} in
      match r with
      | None => (x1, out)
      | Some a =>
          let iter' := (iter + 1)%N in
          if (incr_max_iterations <? iter')%N then (x1, out)
          else
            match find (fun r => r_name r =? a_name a) (rules e) with
            | None => fire_loop fu iter' x1 out
            | Some rl =>
                let h := match find (fun p => fst p =? a_id a) (matched x) with Some p => snd p | None => 0 end in
                match live_fact (e_ x1) h with
                | None => fire_loop fu iter' x1 out                             (* retracted: skip *)
                | Some f =>
                    if negb ((f_type f =? r_type rl) && eval (f_data f) (r_cond rl)) then fire_loop fu iter' x1 out   (* no longer true: skip *)
                    else
                      let x2 := apply_action x1 rl h in
                      let x3 := propagate_all x2 in
                      let x4 := match r_action rl with ARetract => fst (do_retract x3 h) | _ => x3 end in
                      let e4 := e_ x4 in
                      let x5 := {| e_ := {| wm := wm e4; next_h := next_h e4; ag := mark_fired (ag e4) a; seq := seq e4; rules := rules e4 |};
                                   matched := matched x4 |} in
                      fire_loop fu iter' x5 (out ++ [{| fi_rule := r_name rl; fi_h := h; fi_data := f_data f |}])
                end
            end
      end
  end.

Definition fire_all (x : engx) : engx * list firing :=
  fire_loop (S (S (N.to_nat incr_max_iterations))) 0%N x [].

Definition do_reset (x : engx) : engx :=
  let e := e_ x in {| e_ := {| wm := wm e; next_h := next_h e; ag := reset_flags (ag e); seq := seq e; rules := rules e |}; matched := matched x |}.

Inductive op := OInsert (t : Z) (d : data) | OUpdate (h : Z) (d : data) | ORetract (h : Z) | OFire | OReset.

(** ------------------------------------------------------------------ *)
(** observations *)
Fixpoint ins_kv (p : Z * Z) (l : data) : data :=
  match l with [] => [p] | q :: r => if fst p <=? fst q then p :: l else q :: ins_kv p r end.
Definition sort_data (d : data) : data := fold_left (fun a p => ins_kv p a) d [].
Definition enc_data (d : data) : sx := L (map (fun p => L [A (fst p); A (snd p)]) (sort_data d)).

Fixpoint zrange (n : nat) (from : Z) : list Z := match n with O => [] | S k => from :: zrange k (from + 1) end.
Definition issued (e : eng) : list Z := zrange (Z.to_nat (next_h e - 1)) 1.

Definition enc_wm (e : eng) : sx :=
  L [L (map (fun h => match live_fact e h with
                      | Some f => L [A 1; A (f_type f); enc_data (f_data f)]
                      | None => L [A 0] end) (issued e));
     L (map (fun t => sxZs (map f_h (facts_of_type e t))) [0; 1; 2]);
     sxZs (map f_h (all_live e))].

Definition enc_firing (f : firing) : sx := L [A (fi_rule f); A (fi_h f); enc_data (fi_data f)].

(** [sorted]: order-insensitive comparison of a fire_all (rule names only, sorted) *)
Fixpoint ins_z (x : Z) (l : list Z) : list Z := match l with [] => [x] | y :: r => if x <=? y then x :: l else y :: ins_z x r end.
Definition sort_z (l : list Z) : list Z := fold_left (fun a x => ins_z x a) l [].

Definition step (sorted : bool) (x : engx) (o : op) : engx * sx :=
  match o with
  | OInsert t d => let '(x', h) := do_insert x t d in (x', L [L [A h]; enc_wm (e_ x')])
  | OUpdate h d => let '(x', b) := do_update x h d in (x', L [L [sxB b]; enc_wm (e_ x')])
  | ORetract h => let '(x', b) := do_retract x h in (x', L [L [sxB b]; enc_wm (e_ x')])
  | OFire => let '(x', fs) := fire_all x in
             (x', L [if sorted then sxZs (sort_z (map fi_rule fs)) else L (map enc_firing fs); enc_wm (e_ x')])
  | OReset => (do_reset x, L [L []; enc_wm (e_ x)])
  end.

Fixpoint run_from (sorted : bool) (x : engx) (ops : list op) : list sx :=
  match ops with [] => [] | o :: r => let '(x', ob) := step sorted x o in ob :: run_from sorted x' r end.

(** ------------------------------------------------------------------ *)
(** The monitor: C06's sentences checked on the implementation's own observations, independently
    of the propagation model.  It tracks which handles were issued and which are live. *)
Record mstate := { m_issued : list Z; m_live : list Z; m_fires : nat (* fire_all / reset ops seen *) }.

Definition dec_data (s : sx) : option data :=
  match s with L kvs => mapO (fun kv => match kv with L [A k; A v] => Some (k, v) | _ => None end) kvs | _ => None end.

(** decoded working-memory dump *)
Record wmobs := { w_get : list (option (Z * data)); w_types : list (list Z); w_all : list Z }.
Definition dec_wmobs (s : sx) : option wmobs :=
  match s with
  | L [L gets; L tys; all] =>
      match mapO (fun g => match g with
                           | L [A 0] => Some None
                           | L [A 1; A t; d] => option_map (fun d => Some (t, d)) (dec_data d)
                           | _ => None end) gets,
            mapO getZs tys, getZs all with
      | Some gets, Some tys, Some all => Some {| w_get := gets; w_types := tys; w_all := all |}
      | _, _, _ => None end
  | _ => None end.

Fixpoint nth_get {T} (l : list T) (h : Z) : option T := nth_error l (Z.to_nat (h - 1)).

Definition same_set (a b : list Z) : bool := forallb (fun x => memZ x b) a && forallb (fun x => memZ x a) b.
Fixpoint nodupZ (l : list Z) : bool := match l with [] => true | x :: r => negb (memZ x r) && nodupZ r end.

(** every active fact is found by its handle, under its type and in the full listing; a retracted
    fact in none of them *)
Definition views_agree (live : list Z) (issued_n : nat) (w : wmobs) : bool :=
  Nat.eqb (length (w_get w)) issued_n &&
  nodupZ (w_all w) && same_set (w_all w) live &&
  forallb (fun h => match nth_get (w_get w) h with Some (Some _) => true | _ => false end) live &&
  (* handles not live are not found *)
  forallb (fun h => if memZ h live then true else match nth_get (w_get w) h with Some None => true | _ => false end)
          (zrange issued_n 1) &&
  (* type listings: exactly the live facts of that type *)
  forallb (fun tl => nodupZ (snd tl) &&
                     forallb (fun h => memZ h live && match nth_get (w_get w) h with Some (Some (t, _)) => t =? fst tl | _ => false end) (snd tl))
          (combine [0; 1; 2] (w_types w)) &&
  forallb (fun h => match nth_get (w_get w) h with
                    | Some (Some (t, _)) => match nth_error (w_types w) (Z.to_nat t) with Some l => memZ h l | None => false end
                    | _ => false end) live.

Definition dec_firing (s : sx) : option firing :=
  match s with L [A r; A h; d] => option_map (fun d => {| fi_rule := r; fi_h := h; fi_data := d |}) (dec_data d) | _ => None end.

Definition find_rule (rs : list rule) (n : Z) : option rule := find (fun r => r_name r =? n) rs.

(** firings of one fire_all: each fires for a live fact of the rule's type whose contents at that
    moment satisfy the rule; a firing whose action retracts removes the fact for the rest *)
Fixpoint firings_ok (rs : list rule) (live : list Z) (types : Z -> option Z) (fs : list firing) : option (list Z) :=
  match fs with
  | [] => Some live
  | f :: rest =>
      match find_rule rs (fi_rule f) with
      | None => None
      | Some r =>
          if memZ (fi_h f) live && eval (fi_data f) (r_cond r)
             && match types (fi_h f) with Some t => t =? r_type r | None => false end
          then firings_ok rs (match r_action r with ARetract => filter (fun h => negb (h =? fi_h f)) live | _ => live end) types rest
          else None
      end
  end.

Definition inert (rs : list rule) : bool := forallb (fun r => match r_action r with ANop => true | _ => false end) rs.

(** with inert actions and only no-loop rules, the first fire_all fires exactly the rules that some
    live fact satisfies, each once *)
Definition exact_once (rs : list rule) (wbefore : wmobs) (fired : list Z) : bool :=
  nodupZ fired &&
  same_set fired (map r_name (filter (fun r => existsb (fun g => match g with
                                                                | Some (t, d) => (t =? r_type r) && eval d (r_cond r)
                                                                | None => false end) (w_get wbefore)) rs)).

Fixpoint ok_from (sorted : bool) (rs : list rule) (m : mstate) (wprev : wmobs) (ops : list op) (os : list sx) : bool :=
  match ops, os with
  | [], [] => true
  | o :: r, L [res; wsx] :: orr =>
      match dec_wmobs wsx with
      | None => false
      | Some w =>
          let typ h := match nth_get (w_get wprev) h with Some (Some (t, _)) => Some t | _ => None end in
          match o with
          | OInsert t d =>
              match res with
              | L [A h] =>
                  (* handles are never reused *)
                  negb (memZ h (m_issued m)) && (h =? Z.of_nat (length (m_issued m)) + 1) &&
                  let live' := m_live m ++ [h] in
                  views_agree live' (S (length (m_issued m))) w &&
                  match nth_get (w_get w) h with Some (Some (t', d')) => (t' =? t) && sx_eqb (enc_data d') (enc_data d) | _ => false end &&
                  ok_from sorted rs {| m_issued := m_issued m ++ [h]; m_live := live'; m_fires := m_fires m |} w r orr
              | _ => false end
          | OUpdate h d =>
              views_agree (m_live m) (length (m_issued m)) w &&
              sx_eqb res (L [sxB (memZ h (m_live m))]) &&
              (if memZ h (m_live m) then match nth_get (w_get w) h with Some (Some (_, d')) => sx_eqb (enc_data d') (enc_data d) | _ => false end else true) &&
              ok_from sorted rs m w r orr
          | ORetract h =>
              let live' := filter (fun x => negb (x =? h)) (m_live m) in
              views_agree live' (length (m_issued m)) w &&
              sx_eqb res (L [sxB (memZ h (m_live m))]) &&
              ok_from sorted rs {| m_issued := m_issued m; m_live := live'; m_fires := m_fires m |} w r orr
          | OFire =>
              if sorted then
                (* order-insensitive suite: inert actions *)
                match getZs res with
                | Some names =>
                    views_agree (m_live m) (length (m_issued m)) w &&
                    forallb (fun n => match find_rule rs n with
                                      | Some rl => existsb (fun g => match g with Some (t, d) => (t =? r_type rl) && eval d (r_cond rl) | None => false end) (w_get wprev)
                                      | None => false end) names &&
                    (if inert rs && forallb r_noloop rs && Nat.eqb (m_fires m) 0 then exact_once rs wprev names else true) &&
                    ok_from sorted rs {| m_issued := m_issued m; m_live := m_live m; m_fires := S (m_fires m) |} w r orr
                | None => false end
              else
                match res with
                | L fsx =>
                    match mapO dec_firing fsx with
                    | Some fs =>
                        match firings_ok rs (m_live m) typ fs with
                        | Some live' =>
                            views_agree live' (length (m_issued m)) w &&
                            (if inert rs && forallb r_noloop rs && Nat.eqb (m_fires m) 0 then exact_once rs wprev (map fi_rule fs) else true) &&
                            ok_from sorted rs {| m_issued := m_issued m; m_live := live'; m_fires := S (m_fires m) |} w r orr
                        | None => false end
                    | None => false end
                | _ => false end
          | OReset =>
              views_agree (m_live m) (length (m_issued m)) w &&
              ok_from sorted rs {| m_issued := m_issued m; m_live := m_live m; m_fires := S (m_fires m) |} w r orr
          end
      end
  | _, _ => false
  end.

(** ------------------------------------------------------------------ *)
(** wire: case = (sorted ((name type prio noloop cond action) ...) (op ...))
    cond = (0 f cmp k) | (1 a b) | (2 a b) | (3 a) ; action = (0) | (1 f v) | (2)
    op = (0 t data) | (1 h data) | (2 h) | (3) | (4) ; data = ((f v) ...) *)
Definition dec_cmp (s : sx) : option cmp :=
  match s with A 0 => Some CEq | A 1 => Some CNe | A 2 => Some CLt | A 3 => Some CLe | A 4 => Some CGt | A 5 => Some CGe | _ => None end.
Fixpoint dec_cond (fuel : nat) (s : sx) : option cond :=
  match fuel with
  | O => None
  | S f =>
      match s with
      | L [A 0; A fl; c; A k] => option_map (fun c => CAtom fl c k) (dec_cmp c)
      | L [A 1; a; b] => match dec_cond f a, dec_cond f b with Some a, Some b => Some (CAnd a b) | _, _ => None end
      | L [A 2; a; b] => match dec_cond f a, dec_cond f b with Some a, Some b => Some (COr a b) | _, _ => None end
      | L [A 3; a] => option_map CNot (dec_cond f a)
      | _ => None end
  end.
Definition dec_action (s : sx) : option action :=
  match s with L [A 0] => Some ANop | L [A 1; A f; A v] => Some (ASet f v) | L [A 2] => Some ARetract | _ => None end.
Definition dec_rule (s : sx) : option rule :=
  match s with
  | L [A n; A t; A p; nl; c; a] =>
      match getB nl, dec_cond 12 c, dec_action a with
      | Some nl, Some c, Some a => Some {| r_name := n; r_type := t; r_prio := p; r_noloop := nl; r_cond := c; r_action := a |}
      | _, _, _ => None end
  | _ => None end.
Definition dec_op (s : sx) : option op :=
  match s with
  | L [A 0; A t; d] => option_map (OInsert t) (dec_data d)
  | L [A 1; A h; d] => option_map (OUpdate h) (dec_data d)
  | L [A 2; A h] => Some (ORetract h)
  | L [A 3] => Some OFire | L [A 4] => Some OReset
  | _ => None end.
Definition dec_case (c : sx) : option (bool * list rule * list op) :=
  match c with
  | L [sd; L rs; L ops] => match getB sd, mapO dec_rule rs, mapO dec_op ops with
                           | Some sd, Some rs, Some ops => Some (sd, rs, ops) | _, _, _ => None end
  | _ => None end.

Definition run_sx (c : sx) : sx :=
  match dec_case c with
  | Some (sd, rs, ops) => L (run_from sd {| e_ := init rs; matched := [] |} ops)
  | None => sx_bad end.

Definition ok_sx (c o : sx) : bool :=
  match dec_case c, o with
  | Some (sd, rs, ops), L os =>
      ok_from sd rs {| m_issued := []; m_live := []; m_fires := 0 |} {| w_get := []; w_types := [[]; []; []]; w_all := [] |} ops os
  | _, _ => false end.
