(** C18 — model of src/engine/module.rs (ModuleManager), after the repair
    "fix: delete_module drops import declarations that name the deleted module".
    Definitions only.

    Rust items modelled:
      module.rs::pattern_matches
      module.rs::Module::{add_rule, set_exports, add_import, exports_rule, should_re_export_rule}
      module.rs::ModuleManager::{create_module, delete_module, export_all_from, detect_cycle,
            import_from_with_reexport, is_rule_visible, get_visible_rules, get_import_graph}
    Names are strings (lists of code points); module 0 is the default module "MAIN".
    Templates, fact types, salience, focus, stats, validation are not modelled. *)
From RRE Require Import Base.Sx.
Open Scope N_scope.

Definition str := list N.
Fixpoint str_eqb (a b : str) : bool :=
  match a, b with
  | [], [] => true
  | x :: a', y :: b' => N.eqb x y && str_eqb a' b'
  | _, _ => false
  end.
Fixpoint starts_with (s p : str) : bool :=
  match p, s with
  | [], _ => true
  | x :: p', y :: s' => N.eqb x y && starts_with s' p'
  | _ :: _, [] => false
  end.
Definition ends_with (s p : str) : bool := starts_with (rev s) (rev p).

Definition star : N := 42.
Definition s_all : str := [63; 65; 76; 76].  (* "?ALL" *)

(** pattern_matches *)
Definition pattern_matches (pat name : str) : bool :=
  if str_eqb pat [star] || str_eqb pat s_all then true
  else match rev pat with
       | c :: rp => if N.eqb c star then starts_with name (rev rp)       (* strip_suffix('*') *)
                    else match pat with
                         | c0 :: p' => if N.eqb c0 star then ends_with name p' else str_eqb pat name
                         | [] => str_eqb pat name
                         end
       | [] => str_eqb pat name
       end.

Inductive itemtype := ItRule | ItTemplate | ItFact | ItAll.
Inductive exportlist := ExAll | ExNone | ExSpecific (items : list (itemtype * str)).
Inductive importtype := ImAllRules | ImAllTemplates | ImRules | ImTemplates | ImAll.

Record importdecl := { i_from : str; i_type : importtype; i_pat : str; i_reexp : option (list str) }.

Record module := { m_name : str; m_rules : list str; m_exports : exportlist; m_imports : list importdecl }.

Record mgr := { mods : list module; graph : list (str * list str) }.

Definition main : str := [77; 65; 73; 78].

Definition new_module (n : str) : module :=
  {| m_name := n; m_rules := []; m_exports := if str_eqb n main then ExAll else ExNone; m_imports := [] |}.

Definition init : mgr := {| mods := [new_module main]; graph := [] |}.

Definition find_mod (ms : list module) (n : str) : option module :=
  find (fun m => str_eqb (m_name m) n) ms.
Definition mem_str (x : str) (l : list str) : bool := existsb (str_eqb x) l.
Definition upd_mod (ms : list module) (m' : module) : list module :=
  map (fun m => if str_eqb (m_name m) (m_name m') then m' else m) ms.

Definition should_re_export (m : module) (r : str) : bool :=
  existsb (fun i => match i_reexp i with
                    | Some pats => existsb (fun p => pattern_matches p r) pats
                    | None => false end) (m_imports m).

Definition exports_rule (m : module) (r : str) : bool :=
  let owned := mem_str r (m_rules m) in
  (match m_exports m with
   | ExAll => owned
   | ExNone => false
   | ExSpecific items =>
       owned && existsb (fun it => match fst it with ItRule | ItAll => pattern_matches (snd it) r | _ => false end) items
   end) || should_re_export m r.

Definition rule_import (i : importdecl) : bool :=
  match i_type i with ImAllRules | ImRules | ImAll => true | _ => false end.

(** tri-state answer of a visibility query: 0 false, 1 true, 2 Err *)
Fixpoint visible_imports (ms : list module) (is_ : list importdecl) (r : str) : N :=
  match is_ with
  | [] => 0
  | i :: rest =>
      if rule_import i then
        match find_mod ms (i_from i) with
        | None => 2
        | Some fm => if exports_rule fm r && pattern_matches (i_pat i) r then 1
                     else visible_imports ms rest r
        end
      else visible_imports ms rest r
  end.

Definition is_rule_visible (g : mgr) (r to : str) : N :=
  match find_mod (mods g) to with
  | None => 2
  | Some m => if mem_str r (m_rules m) then 1 else visible_imports (mods g) (m_imports m) r
  end.

(** get_visible_rules as a set; None = Err *)
Fixpoint listing_imports (ms : list module) (is_ : list importdecl) (acc : list str) : option (list str) :=
  match is_ with
  | [] => Some acc
  | i :: rest =>
      if rule_import i then
        match find_mod ms (i_from i) with
        | None => None
        | Some fm =>
            (* after the repair "fix: get_visible_rules lists re-exported rules": every rule of every module is a candidate *)
            listing_imports ms rest
              (fold_left (fun a r => if exports_rule fm r && pattern_matches (i_pat i) r && negb (mem_str r a)
                                     then a ++ [r] else a) (flat_map m_rules ms) acc)
        end
      else listing_imports ms rest acc
  end.

Definition get_visible_rules (g : mgr) (n : str) : option (list str) :=
  match find_mod (mods g) n with
  | None => None
  | Some m => listing_imports (mods g) (m_imports m) (m_rules m)
  end.

Definition graph_of (gr : list (str * list str)) (n : str) : list str :=
  match find (fun e => str_eqb (fst e) n) gr with Some e => snd e | None => [] end.

(** detect_cycle: BFS from [from]; Err (false) when [to] is reachable. *)
Fixpoint bfs (fuel : nat) (gr : list (str * list str)) (to : str) (queue visited : list str) : bool :=
  match fuel with
  | O => true
  | S f =>
      match queue with
      | [] => true
      | cur :: q =>
          let imps := graph_of gr cur in
          if mem_str to imps then false
          else
            let '(q', v') := fold_left (fun qv i => if mem_str i (snd qv) then qv
                                                    else (fst qv ++ [i], snd qv ++ [i])) imps (q, visited) in
            bfs f gr to q' v'
      end
  end.

Definition graph_size (gr : list (str * list str)) : nat :=
  fold_right (fun e a => (S (length (snd e)) + a)%nat) 1%nat gr.

Definition detect_cycle (g : mgr) (to from : str) : bool :=
  if str_eqb to from then false
  else bfs (S (graph_size (graph g))) (graph g) to [from] [from].

Definition graph_add (gr : list (str * list str)) (to from : str) : list (str * list str) :=
  if existsb (fun e => str_eqb (fst e) to) gr
  then map (fun e => if str_eqb (fst e) to
                     then (fst e, if mem_str from (snd e) then snd e else snd e ++ [from]) else e) gr
  else gr ++ [(to, [from])].

Inductive op :=
| Create (n : str)
| Delete (n : str)
| SetExport (n : str) (e : exportlist)
| AddRule (n r : str)
| Import (to from : str) (t : importtype) (pat : str) (re : option (list str)).

(** result: true = Ok *)
Definition step (g : mgr) (o : op) : mgr * bool :=
  match o with
  | Create n =>
      match find_mod (mods g) n with
      | Some _ => (g, false)
      | None => ({| mods := mods g ++ [new_module n]; graph := graph g |}, true)
      end
  | Delete n =>
      if str_eqb n main then (g, false)
      else match find_mod (mods g) n with
           | None => (g, false)
           | Some _ =>
               ({| mods := map (fun m => {| m_name := m_name m; m_rules := m_rules m; m_exports := m_exports m;
                                            m_imports := filter (fun i => negb (str_eqb (i_from i) n)) (m_imports m) |})
                               (filter (fun m => negb (str_eqb (m_name m) n)) (mods g));
                   graph := map (fun e => (fst e, filter (fun x => negb (str_eqb x n)) (snd e)))
                                (filter (fun e => negb (str_eqb (fst e) n)) (graph g)) |}, true)
           end
  | SetExport n e =>
      match find_mod (mods g) n with
      | None => (g, false)
      | Some m => ({| mods := upd_mod (mods g) {| m_name := m_name m; m_rules := m_rules m; m_exports := e; m_imports := m_imports m |};
                      graph := graph g |}, true)
      end
  | AddRule n r =>
      match find_mod (mods g) n with
      | None => (g, false)
      | Some m => ({| mods := upd_mod (mods g) {| m_name := m_name m;
                                                  m_rules := if mem_str r (m_rules m) then m_rules m else m_rules m ++ [r];
                                                  m_exports := m_exports m; m_imports := m_imports m |};
                      graph := graph g |}, true)
      end
  | Import to from t pat re =>
      match find_mod (mods g) from with
      | None => (g, false)
      | Some _ =>
          if detect_cycle g to from then
            match find_mod (mods g) to with
            | None => (g, false)
            | Some m =>
                ({| mods := upd_mod (mods g) {| m_name := m_name m; m_rules := m_rules m; m_exports := m_exports m;
                                                m_imports := m_imports m ++ [{| i_from := from; i_type := t; i_pat := pat; i_reexp := re |}] |};
                    graph := graph_add (graph g) to from |}, true)
            end
          else (g, false)
      end
  end.

(** ------------------------------------------------------------------ *)
(** Observation after each op over a universe of module names [U] and rule names [R] *)
Definition enc_str (s : str) : sx := L (map sxN s).

Definition observe (U R : list str) (g : mgr) (res : bool) : sx :=
  L [sxB res;
     L (map (fun n => match find_mod (mods g) n with
                      | None => L [sxB false; L []; L []]
                      | Some m => L [sxB true; L (map (fun i => enc_str (i_from i)) (m_imports m));
                                     L (map (fun n2 => sxB (mem_str n2 (graph_of (graph g) n))) U)]
                      end) U);
     L (map (fun n => L (map (fun r => sxN (is_rule_visible g r n)) R)) U);
     L (map (fun n => match get_visible_rules g n with
                      | None => L [A 2]
                      | Some l => L (map (fun r => sxB (mem_str r l)) R) end) U)].

Fixpoint run_from (U R : list str) (g : mgr) (ops : list op) : list sx :=
  match ops with
  | [] => []
  | o :: r => let '(g', res) := step g o in observe U R g' res :: run_from U R g' r
  end.
Definition run (U R : list str) (ops : list op) : list sx := run_from U R init ops.

(** ------------------------------------------------------------------ *)
(** Specification: the import relation IS the declarations of the existing modules. *)
Definition succs (ms : list module) (S : list str) : list str :=
  flat_map (fun n => match find_mod ms n with Some m => map i_from (m_imports m) | None => [] end) S.

Fixpoint closure (k : nat) (ms : list module) (S : list str) : list str :=
  match k with
  | O => S
  | S k' => closure k' ms (fold_left (fun a x => if mem_str x a then a else a ++ [x]) (succs ms S) S)
  end.

(** [from] reaches [to] through one or more declared imports... or is [to] itself *)
Definition reaches (ms : list module) (from to : str) : bool :=
  mem_str to (closure (S (length ms)) ms [from]).

Definition decl_acyclic (ms : list module) : bool :=
  forallb (fun m => negb (existsb (fun i => reaches ms (i_from i) (m_name m)) (m_imports m))) ms.

Definition spec_visible (ms : list module) (r to : str) : N :=
  match find_mod ms to with
  | None => 2
  | Some m =>
      if mem_str r (m_rules m) then 1
      else if existsb (fun i => rule_import i &&
                                match find_mod ms (i_from i) with
                                | Some fm => exports_rule fm r && pattern_matches (i_pat i) r
                                | None => false end) (m_imports m)
           then 1 else 0
  end.

Definition owned_somewhere (ms : list module) (r : str) : bool :=
  existsb (fun m => mem_str r (m_rules m)) ms.

(** listing by the declarations: the existing rules the module can see *)
Definition spec_listing (ms : list module) (R : list str) (n : str) : sx :=
  match find_mod ms n with
  | None => L [A 2]
  | Some _ => L (map (fun r => sxB (N.eqb (spec_visible ms r n) 1 && owned_somewhere ms r)) R)
  end.

Definition spec_step (ms : list module) (o : op) : list module * bool :=
  match o with
  | Import to from t pat re =>
      match find_mod ms from, find_mod ms to with
      | Some _, Some m =>
          if str_eqb to from || reaches ms from to then (ms, false)
          else (upd_mod ms {| m_name := m_name m; m_rules := m_rules m; m_exports := m_exports m;
                              m_imports := m_imports m ++ [{| i_from := from; i_type := t; i_pat := pat; i_reexp := re |}] |}, true)
      | _, _ => (ms, false)
      end
  | _ => let '(g', res) := step {| mods := ms; graph := [] |} o in (mods g', res)
  end.

(** expected observation (graph = declared edges) *)
Definition spec_observe (U R : list str) (ms : list module) (res : bool) : sx :=
  L [sxB res;
     L (map (fun n => match find_mod ms n with
                      | None => L [sxB false; L []; L []]
                      | Some m => L [sxB true; L (map (fun i => enc_str (i_from i)) (m_imports m));
                                     L (map (fun n2 => sxB (mem_str n2 (map i_from (m_imports m)))) U)]
                      end) U);
     L (map (fun n => L (map (fun r => sxN (spec_visible ms r n)) R)) U);
     L (map (fun n => spec_listing ms R n) U)].

(** verdict: 1 ok; 0 otherwise (the former class 2, a listing that misses re-exported rules, was repaired in /repo).
    Acyclicity of the declared relation is part of the verdict. *)
Fixpoint ok_from (U R : list str) (ms : list module) (ops : list op) (os : list sx) (worst : Z) : Z :=
  match ops, os with
  | [], [] => worst
  | o :: r, ob :: orr =>
      let '(ms', res) := spec_step ms o in
      if negb (decl_acyclic ms') then 0%Z
      else if sx_eqb (spec_observe U R ms' res) ob then ok_from U R ms' r orr worst
      else 0%Z
  | _, _ => 0%Z
  end.

Definition ok (U R : list str) (ops : list op) (os : list sx) : Z := ok_from U R [new_module main] ops os 1%Z.

(** wire: case = ((modname ...) (rulename ...) (op ...)), names as code-point lists;
    op = (0 n) create | (1 n) delete | (2 n e) export | (3 n r) add rule | (4 to from t pat re)
    e = (0) all | (1) none | (2 ((it pat) ...)) ; it: 0 rule 1 template 2 fact 3 all
    t : 0 AllRules 1 AllTemplates 2 Rules 3 Templates 4 All ; re = () | ((pat ...)) *)
Definition dec_str (s : sx) : option str := getNs s.
Definition dec_it (s : sx) : option itemtype :=
  match s with A 0 => Some ItRule | A 1 => Some ItTemplate | A 2 => Some ItFact | A 3 => Some ItAll | _ => None end.
Definition dec_item (s : sx) : option (itemtype * str) :=
  match s with L [it; p] => match dec_it it, dec_str p with Some it, Some p => Some (it, p) | _, _ => None end
  | _ => None end.
Definition dec_export (s : sx) : option exportlist :=
  match s with
  | L [A 0] => Some ExAll | L [A 1] => Some ExNone
  | L [A 2; L items] => match mapO dec_item items with Some l => Some (ExSpecific l) | None => None end
  | _ => None end.
Definition dec_itype (s : sx) : option importtype :=
  match s with A 0 => Some ImAllRules | A 1 => Some ImAllTemplates | A 2 => Some ImRules
             | A 3 => Some ImTemplates | A 4 => Some ImAll | _ => None end.
Definition dec_re (s : sx) : option (option (list str)) :=
  match s with
  | L [] => Some None
  | L [L ps] => match mapO dec_str ps with Some ps => Some (Some ps) | None => None end
  | _ => None end.
Definition dec_op (s : sx) : option op :=
  match s with
  | L [A 0; n] => option_map Create (dec_str n)
  | L [A 1; n] => option_map Delete (dec_str n)
  | L [A 2; n; e] => match dec_str n, dec_export e with Some n, Some e => Some (SetExport n e) | _, _ => None end
  | L [A 3; n; r] => match dec_str n, dec_str r with Some n, Some r => Some (AddRule n r) | _, _ => None end
  | L [A 4; to; from; t; pat; re] =>
      match dec_str to, dec_str from, dec_itype t, dec_str pat, dec_re re with
      | Some to, Some from, Some t, Some pat, Some re => Some (Import to from t pat re)
      | _, _, _, _, _ => None end
  | _ => None end.
Definition dec_case (s : sx) : option (list str * list str * list op) :=
  match s with
  | L [L U; L R; L ops] =>
      match mapO dec_str U, mapO dec_str R, mapO dec_op ops with
      | Some U, Some R, Some ops => Some (U, R, ops) | _, _, _ => None end
  | _ => None end.

Definition run_sx (c : sx) : sx :=
  match dec_case c with Some (U, R, ops) => L (run U R ops) | None => sx_bad end.
Definition ok_sx (c o : sx) : Z :=
  match dec_case c, o with Some (U, R, ops), L os => ok U R ops os | _, _ => 0%Z end.
