(** C07 — model of src/rete/agenda.rs (AdvancedAgenda) and of the iteration structure of the three
    fire_all entry points of the RETE family (src/rete/propagation.rs, src/rete/network.rs).
    Definitions only.

    Rust items modelled:
      agenda.rs::{Activation (Ord), AdvancedAgenda::{add_activation, get_next_activation,
                  mark_rule_fired, set_focus, reset_fired_flags}}
      network.rs::fire_rete_ul_rules_with_agenda, TypedReteUlEngine::fire_all   (loop structure)
      propagation.rs::IncrementalEngine::fire_all                               (loop structure)
    BinaryHeap::pop is modelled as "remove a maximum for Ord" (trusted: std BinaryHeap);
    [created] is the creation order of activations (Instant::now strictly increasing between two
    Activation::new calls: the harness enforces it).  Ruleflow groups are not modelled. *)
From RRE Require Import Base.Sx Generated.Consts.
Open Scope Z_scope.

Record act := {
  a_id : Z;            (* identity = index of the add op *)
  a_name : Z; a_sal : Z; a_agroup : option Z; a_group : Z;
  a_noloop : bool; a_lock : bool; a_autofocus : bool;
  a_created : Z
}.

(** Ord for Activation: salience, then earlier created is greater *)
Definition better (a b : act) : bool :=
  (a_sal b <? a_sal a) || ((a_sal a =? a_sal b) && (a_created a <? a_created b)).

Fixpoint memZ (x : Z) (l : list Z) : bool := match l with [] => false | y :: r => Z.eqb x y || memZ x r end.
Definition addZ (x : Z) (l : list Z) : list Z := if memZ x l then l else l ++ [x].

(** BinaryHeap::pop *)
Fixpoint max_of (best : act) (l : list act) : act :=
  match l with [] => best | x :: r => max_of (if better x best then x else best) r end.
Definition pop_max (l : list act) : option (act * list act) :=
  match l with
  | [] => None
  | x :: r => let m := max_of x r in Some (m, filter (fun y => negb (a_id y =? a_id m)) l)
  end.

Record agenda := {
  groups : list (Z * list act);
  focus : Z; stack : list Z;
  fired_rules : list Z; fired_agroups : list Z; locked : list Z
}.
Definition main_group : Z := 0.
Definition init : agenda := {| groups := [(main_group, [])]; focus := main_group; stack := []; fired_rules := []; fired_agroups := []; locked := [] |}.

Definition grp_get (g : list (Z * list act)) (k : Z) : option (list act) :=
  match find (fun e => fst e =? k) g with Some e => Some (snd e) | None => None end.
Definition grp_set (g : list (Z * list act)) (k : Z) (l : list act) : list (Z * list act) :=
  if existsb (fun e => fst e =? k) g then map (fun e => if fst e =? k then (k, l) else e) g else g ++ [(k, l)].

Definition set_focus (a : agenda) (g : Z) : agenda :=
  if g =? focus a then a
  else {| groups := groups a; focus := g; stack := stack a ++ [focus a]; fired_rules := fired_rules a;
          fired_agroups := fired_agroups a; locked := locked a |}.

Definition add_activation (a : agenda) (x : act) : agenda :=
  let a1 := if a_autofocus x && negb (a_group x =? focus a) then set_focus a (a_group x) else a in
  match a_agroup x with
  | Some g => if memZ g (fired_agroups a1) then a1
              else {| groups := grp_set (groups a1) (a_group x) (match grp_get (groups a1) (a_group x) with Some l => l ++ [x] | None => [x] end);
                      focus := focus a1; stack := stack a1; fired_rules := fired_rules a1; fired_agroups := fired_agroups a1; locked := locked a1 |}
  | None => {| groups := grp_set (groups a1) (a_group x) (match grp_get (groups a1) (a_group x) with Some l => l ++ [x] | None => [x] end);
               focus := focus a1; stack := stack a1; fired_rules := fired_rules a1; fired_agroups := fired_agroups a1; locked := locked a1 |}
  end.

Definition eligible (a : agenda) (x : act) : bool :=
  negb (a_noloop x && memZ (a_name x) (fired_rules a))
  && negb (a_lock x && memZ (a_group x) (locked a))
  && negb (match a_agroup x with Some g => memZ g (fired_agroups a) | None => false end).

(** inner while: pop until an eligible activation is found; returns it and the remaining heap *)
Fixpoint pop_eligible (fuel : nat) (a : agenda) (heap : list act) : option act * list act :=
  match fuel with
  | O => (None, heap)
  | S f => match pop_max heap with
           | None => (None, [])
           | Some (m, rest) => if eligible a m then (Some m, rest) else pop_eligible f a rest
           end
  end.

(** get_next_activation: outer loop over the focus stack *)
Fixpoint get_next (fuel : nat) (a : agenda) : agenda * option act :=
  match fuel with
  | O => (a, None)
  | S f =>
      let '(r, a1) :=
        match grp_get (groups a) (focus a) with
        | Some heap =>
            let '(r, rest) := pop_eligible (S (length heap)) a heap in
            (r, {| groups := grp_set (groups a) (focus a) rest; focus := focus a; stack := stack a;
                   fired_rules := fired_rules a; fired_agroups := fired_agroups a; locked := locked a |})
        | None => (None, a)
        end in
      match r with
      | Some x => (a1, Some x)
      | None =>
          match rev (stack a1) with
          | [] => (a1, None)
          | top :: rest => get_next f {| groups := groups a1; focus := top; stack := rev rest; fired_rules := fired_rules a1;
                                         fired_agroups := fired_agroups a1; locked := locked a1 |}
          end
      end
  end.

Definition mark_fired (a : agenda) (x : act) : agenda :=
  {| groups := groups a; focus := focus a; stack := stack a;
     fired_rules := addZ (a_name x) (fired_rules a);
     fired_agroups := match a_agroup x with Some g => addZ g (fired_agroups a) | None => fired_agroups a end;
     locked := if a_lock x then addZ (a_group x) (locked a) else locked a |}.

Definition reset_flags (a : agenda) : agenda :=
  {| groups := groups a; focus := focus a; stack := stack a; fired_rules := []; fired_agroups := []; locked := [] |}.

Inductive op := OAdd (x : act) | ONext | OMark | OFocus (g : Z) | OReset.

(** state threaded through a history: agenda + the activation last returned by Next *)
Definition step (st : agenda * option act) (o : op) : (agenda * option act) * sx :=
  let '(a, last) := st in
  match o with
  | OAdd x => ((add_activation a x, last), L [A (focus (add_activation a x))])
  | ONext => let '(a', r) := get_next (S (length (stack a))) a in
             ((a', r), L [A (focus a'); sxO (fun x => A (a_id x)) r])
  | OMark => match last with
             | Some x => ((mark_fired a x, last), L [A (focus a)])
             | None => ((a, last), L [A (focus a)]) end
  | OFocus g => ((set_focus a g, last), L [A (focus (set_focus a g))])
  | OReset => ((reset_flags a, last), L [A (focus a)])
  end.

Fixpoint run_from (st : agenda * option act) (ops : list op) : list sx :=
  match ops with [] => [] | o :: r => let '(st', ob) := step st o in ob :: run_from st' r end.

(** ------------------------------------------------------------------ *)
(** Specification of get_next: walk the focus chain (focus, then the stack from the top); in the
    first group that has an ELIGIBLE pending activation return the one that is greatest for
    (salience descending, earlier-created first); everything popped on the way is gone. *)
Definition best_eligible (a : agenda) (l : list act) : option act :=
  match filter (eligible a) l with
  | [] => None
  | x :: r => Some (max_of x r)
  end.

Fixpoint spec_next (fuel : nat) (a : agenda) : agenda * option act :=
  match fuel with
  | O => (a, None)
  | S f =>
      let heap := match grp_get (groups a) (focus a) with Some h => h | None => [] end in
      match best_eligible a heap with
      | Some m =>
          (* m is returned; every pending activation of the group that ranks above m was popped and dropped *)
          ({| groups := grp_set (groups a) (focus a) (filter (fun y => negb (a_id y =? a_id m) && negb (better y m)) heap);
              focus := focus a; stack := stack a; fired_rules := fired_rules a; fired_agroups := fired_agroups a; locked := locked a |},
           Some m)
      | None =>
          let g1 := match grp_get (groups a) (focus a) with Some _ => grp_set (groups a) (focus a) [] | None => groups a end in
          match rev (stack a) with
          | [] => ({| groups := g1; focus := focus a; stack := stack a; fired_rules := fired_rules a;
                      fired_agroups := fired_agroups a; locked := locked a |}, None)
          | top :: rest => spec_next f {| groups := g1; focus := top; stack := rev rest; fired_rules := fired_rules a;
                                          fired_agroups := fired_agroups a; locked := locked a |}
          end
      end
  end.

Definition spec_step (st : agenda * option act) (o : op) : (agenda * option act) * sx :=
  let '(a, last) := st in
  match o with
  | ONext => let '(a', r) := spec_next (S (length (stack a))) a in
             ((a', r), L [A (focus a'); sxO (fun x => A (a_id x)) r])
  | _ => step st o
  end.
Fixpoint spec_run_from (st : agenda * option act) (ops : list op) : list sx :=
  match ops with [] => [] | o :: r => let '(st', ob) := spec_step st o in ob :: spec_run_from st' r end.

(** ------------------------------------------------------------------ *)
(** Iteration structure of the three fire_all loops, over rules whose condition is a constant.
    rule = (name, priority, no_loop, cond) *)
Record crule := { c_name : Z; c_prio : Z; c_noloop : bool; c_true : bool }.

(** stable sort by Reverse(priority) *)
Fixpoint ins_prio (x : crule) (l : list crule) : list crule :=
  match l with [] => [x] | y :: r => if c_prio y <? c_prio x then x :: l else y :: ins_prio x r end.
Definition sort_prio (l : list crule) : list crule := fold_left (fun acc x => ins_prio x acc) l [].

(** fire_rete_ul_rules_with_agenda: every rule fires at most once (fired_flags) *)
Fixpoint ul_loop (fuel : nat) (iter : N) (rules : list crule) (fired : list Z) (out : list Z) : list Z * N :=
  match fuel with
  | O => (out, iter)
  | S f =>
      let iter' := (iter + 1)%N in
      if (ul_max_iterations <? iter')%N then (out, iter')
      else
        let ag := sort_prio (filter (fun r => negb (memZ (c_name r) fired) && c_true r) rules) in
        match ag with
        | [] => (out, iter')
        | _ => let out' := out ++ map c_name ag in
               let fired' := fold_left (fun s r => addZ (c_name r) s) ag fired in
               if forallb c_noloop rules then (out', iter') else ul_loop f iter' rules fired' out'
        end
  end.
Definition ul_fire_all (rules : list crule) : list Z * N :=
  ul_loop (S (N.to_nat ul_max_iterations)) 0%N rules [] [].

(** TypedReteUlEngine::fire_all (after the repair): passes bounded by typed_max_iterations *)
Definition typed_bound : N := match typed_max_iterations with Some n => n | None => 0%N end.
Fixpoint typed_loop (fuel : nat) (iter : N) (rules : list crule) (fired : list Z) (out : list Z) : list Z * N :=
  match fuel with
  | O => (out, iter)
  | S f =>
      let iter' := (iter + 1)%N in
      if (typed_bound <? iter')%N then (out, iter')
      else
        let ag := sort_prio (filter (fun r => (negb (c_noloop r) || negb (memZ (c_name r) fired)) && c_true r) rules) in
        (* within a pass a no-loop rule already fired in this pass is skipped: names are unique in the harness *)
        match ag with
        | [] => (out, iter')
        | _ => typed_loop f iter' rules (fold_left (fun s r => addZ (c_name r) s) ag fired) (out ++ map c_name ag)
        end
  end.
Definition typed_fire_all (rules : list crule) : list Z * N :=
  typed_loop (S (N.to_nat typed_bound)) 0%N rules [] [].

(** IncrementalEngine::fire_all over one fact: the agenda is the model above; after every firing
    propagate_changes re-adds an activation for every true rule that is not (no_loop and fired) *)
Fixpoint incr_loop (fuel : nat) (iter : N) (rules : list crule) (a : agenda) (seq : Z) (out : list Z) : list Z * N :=
  match fuel with
  | O => (out, iter)
  | S f =>
      let '(a1, r) := get_next (S (length (stack a))) a in
      match r with
      | None => (out, iter)
      | Some x =>
          let iter' := (iter + 1)%N in
          if (incr_max_iterations <? iter')%N then (out, iter')
          else
            (* propagate_changes *)
            let '(a2, seq') := fold_left (fun acc r =>
                  let '(ag, s) := acc in
                  if c_true r && negb (c_noloop r && memZ (c_name r) (fired_rules ag))
                  then (add_activation ag {| a_id := s; a_name := c_name r; a_sal := c_prio r; a_agroup := None; a_group := main_group;
                                             a_noloop := c_noloop r; a_lock := false; a_autofocus := false; a_created := s |}, s + 1)
                  else (ag, s)) rules (a1, seq) in
            incr_loop f iter' rules (mark_fired a2 x) seq' (out ++ [a_name x])
      end
  end.
Definition incr_fire_all (rules : list crule) : list Z * N :=
  (* insert of the single fact: propagate_changes_for_type adds one activation per true rule *)
  let '(a0, seq) := fold_left (fun acc r =>
        let '(ag, s) := acc in
        if c_true r then (add_activation ag {| a_id := s; a_name := c_name r; a_sal := c_prio r; a_agroup := None; a_group := main_group;
                                               a_noloop := c_noloop r; a_lock := false; a_autofocus := false; a_created := s |}, s + 1)
        else (ag, s)) rules (init, 0) in
  incr_loop (S (S (N.to_nat incr_max_iterations))) 0%N rules a0 seq [].

(** ------------------------------------------------------------------ *)
(** wire.  agenda case = (0 (op ...)); op = (0 id name sal agroup group noloop lock autofocus) add
    | (1) next | (2) mark | (3 g) focus | (4) reset ; agroup = () | (g)
    loop case = (1 engine ((name prio noloop true) ...)) ; engine 0 = ReteUlEngine, 1 = Typed, 2 = Incremental
    loop observation = (total (count per rule ...) (first 12 names ...)) *)
Definition dec_og (s : sx) : option (option Z) := match s with L [] => Some None | L [A g] => Some (Some g) | _ => None end.
Definition dec_op (s : sx) : option op :=
  match s with
  | L [A 0; A id; A nm; A sal; ag; A g; nl; lk; af] =>
      match dec_og ag, getB nl, getB lk, getB af with
      | Some ag, Some nl, Some lk, Some af =>
          Some (OAdd {| a_id := id; a_name := nm; a_sal := sal; a_agroup := ag; a_group := g; a_noloop := nl; a_lock := lk;
                        a_autofocus := af; a_created := id |})
      | _, _, _, _ => None end
  (* the same with an explicit creation stamp: the harness creates the activations of a case in stamp order and adds them
     where the history says (creation order and insertion order may differ) *)
  | L [A 0; A id; A nm; A sal; ag; A g; nl; lk; af; A created] =>
      match dec_og ag, getB nl, getB lk, getB af with
      | Some ag, Some nl, Some lk, Some af =>
          Some (OAdd {| a_id := id; a_name := nm; a_sal := sal; a_agroup := ag; a_group := g; a_noloop := nl; a_lock := lk;
                        a_autofocus := af; a_created := created |})
      | _, _, _, _ => None end
  | L [A 1] => Some ONext | L [A 2] => Some OMark | L [A 3; A g] => Some (OFocus g) | L [A 4] => Some OReset
  | _ => None end.
Definition dec_rule (s : sx) : option crule :=
  match s with
  | L [A n; A p; nl; t] => match getB nl, getB t with
                           | Some nl, Some t => Some {| c_name := n; c_prio := p; c_noloop := nl; c_true := t |}
                           | _, _ => None end
  | _ => None end.

Definition count_of (n : Z) (l : list Z) : Z := Z.of_nat (length (filter (Z.eqb n) l)).
Definition enc_loop (rules : list crule) (r : list Z * N) : sx :=
  L [A (Z.of_nat (length (fst r))); L (map (fun c => A (count_of (c_name c) (fst r))) rules); sxZs (firstn 12 (fst r))].

Definition run_sx (c : sx) : sx :=
  match c with
  | L [A 0; L ops] => match mapO dec_op ops with Some ops => L (run_from (init, None) ops) | None => sx_bad end
  | L [A 1; A e; L rs] =>
      match mapO dec_rule rs with
      | Some rs => match e with
                   | 0 => enc_loop rs (ul_fire_all rs)
                   | 1 => enc_loop rs (typed_fire_all rs)
                   | _ => enc_loop rs (incr_fire_all rs) end
      | None => sx_bad end
  | _ => sx_bad end.

(** monitor: agenda histories must equal the specification's; a fire_all run must return (the
    harness reports a hang as an abnormal outcome) with at most bound x |rules| firings *)
Definition ok_sx (c o : sx) : bool :=
  match c, o with
  | L [A 0; L ops], L os => match mapO dec_op ops with Some ops => sx_eqb (L (spec_run_from (init, None) ops)) o | None => false end
  | L [A 1; A e; L rs], L [A total; L counts; _] =>
      match mapO dec_rule rs with
      | Some rs =>
          let bound := match e with 0 => Z.of_N ul_max_iterations | 1 => Z.of_N typed_bound | _ => Z.of_N incr_max_iterations end in
          (total <=? bound * Z.of_nat (length rs) + 1) &&
          (* a rule whose condition is false never fires; a no-loop rule fires at most once *)
          (match getZs (L counts) with
           | Some cs => if Nat.eqb (length cs) (length rs)
                        then forallb (fun p => (if c_true (fst p) then true else snd p =? 0) &&
                                               (if c_noloop (fst p) then snd p <=? 1 else true)) (combine rs cs)
                        else false
           | None => false end)
      | None => false end
  | _, _ => false end.
