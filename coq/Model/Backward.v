(** C09 / C11 / C10 (query part) — backward chaining on Horn-style rule sets: rules whose conditions are
    And / Or trees of `field op literal` and whose actions assign literals.
    Modelled (src/backward/search.rs after repairs, backward_engine.rs, rule_executor.rs,
    conclusion_index.rs, engine/condition_evaluator.rs):
      - ConditionEvaluator::evaluate_condition on a field comparison (missing field: != true, others false)
      - RuleExecutor::try_execute_rule = evaluate the condition tree, then facts.set per assignment
      - DepthFirstSearch::search_recursive_with_execution with the depth bound, candidate rules, the
        rollback of a failed candidate (as a return to the facts at its start), recursive proof of
        unmet conditions (try_prove_condition_group / try_prove_single_condition, sub-goal candidates by
        substring match of the assigned field in the goal pattern)
      - check_goal_in_facts incl. the integer adaptation of an untyped goal literal
      - the root candidates of ConclusionIndex::find_candidates and their fallback
      - IterativeDeepeningSearch (probe = "has a candidate", then depth-first at depth limit 0)
      - BackwardEngine's memo table keyed by query and facts, failures only
    and the specification: derivable atoms (forward closure, many-valued) and derivations of bounded height.
    Definitions only. *)
From RRE Require Import Base.Sx Base.Float Base.Num Model.ExprShape Model.Forward Model.ForwardSpec.
From Coq Require Import Floats.SpecFloat.
Open Scope Z_scope.

Record bcond := { b_field : str; b_op : oper; b_val : value }.
Inductive bgroup := BSingle (c : bcond) | BAnd (a b : bgroup) | BOr (a b : bgroup).
Record brule := { br_cond : bgroup; br_sets : list (str * value) }.

Definition blookup (f : facts) (k : str) : option value :=
  match get_nested f k with Some v => Some v | None => fget f k end.

(** ConditionEvaluator::evaluate_condition *)
Definition bholds (f : facts) (c : bcond) : bool :=
  match blookup f (b_field c) with
  | Some v => op_eval (b_op c) v (b_val c)
  | None => match b_op c with ONe => true | _ => false end
  end.
Fixpoint gholds (f : facts) (g : bgroup) : bool :=
  match g with BSingle c => bholds f c | BAnd a b => gholds f a && gholds f b | BOr a b => gholds f a || gholds f b end.

Definition bexec (f : facts) (r : brule) : facts := fold_left (fun f kv => fset f (fst kv) (snd kv)) (br_sets r) f.
(** try_execute_rule: Some facts' when the conditions hold *)
Definition try_exec (f : facts) (r : brule) : option facts := if gholds f (br_cond r) then Some (bexec f r) else None.

(** goals: the pattern text is "field op literal"; an untyped numeric literal is read as a float and
    compared as an integer when the fact holds an integer (repair) *)
Definition is_whole_small (x : f64) : bool := is_whole x && fltb (SFabs x) (f_of_Z 9007199254740992).
Definition goal_holds (f : facts) (g : bcond) : bool :=
  let g' := match b_val g, blookup f (b_field g) with
            | VNum n, Some (VInt _) => if is_whole_small n then {| b_field := b_field g; b_op := b_op g; b_val := VInt (f_to_i64 n) |} else g
            | _, _ => g end in
  bholds f g'.

(** the text of a goal pattern, for the substring tests *)
Definition bop_str (o : oper) : str :=
  match o with
  | OEq => [61; 61] | ONe => [33; 61] | OGt => [62] | OGe => [62; 61] | OLt => [60] | OLe => [60; 61]
  | OContains => op_str OContains | ONotContains => op_str ONotContains
  | OStartsWith => [115; 116; 97; 114; 116; 115; 95; 119; 105; 116; 104]
  | OEndsWith => [101; 110; 100; 115; 95; 119; 105; 116; 104]
  | OMatches => op_str OMatches | OIn => op_str OIn end.
Definition pattern_of (g : bcond) (valtxt : str) : str := b_field g ++ [32] ++ bop_str (b_op g) ++ [32] ++ valtxt.

(** what a sub-goal's literal becomes after condition_to_goal_pattern and parse_value_string:
    booleans and strings survive; integers and floats come back as floats (then adapted) *)
Definition reparse_val (v : value) : value :=
  match v with VInt z => VNum (f_of_Z z) | x => x end.
Definition subgoal_of (c : bcond) : bcond := {| b_field := b_field c; b_op := b_op c; b_val := reparse_val (b_val c) |}.

Definition sets_field_in (pat : str) (r : brule) : bool := existsb (fun kv => str_contains pat (fst kv)) (br_sets r).

Section Search.
Variable rules : list brule.
Variable max_depth : Z.

(** text of a value as condition_to_goal_pattern prints it, supplied by the harness per literal; the
    candidate test only needs the field part, so the model uses field ++ " op " and the empty value text *)
Definition sub_candidates (c : bcond) : list brule := filter (sets_field_in (pattern_of c [])) rules.

(** the loop over candidate rules of one goal; [provef] proves a rule's unmet conditions one level deeper *)
Fixpoint try_cands (provef : bgroup -> Z -> facts -> bool * facts) (goal : bcond) (depth : Z) (f : facts) (cs : list brule) : bool * facts :=
  match cs with
  | [] => (false, f)
  | r :: rest =>
      match try_exec f r with
      | Some f1 => if goal_holds f1 goal then (true, f1) else try_cands provef goal depth f rest
      | None =>
          match provef (br_cond r) (depth + 1) f with
          | (true, f2) => match try_exec f2 r with
                          | Some f3 => if goal_holds f3 goal then (true, f3) else try_cands provef goal depth f rest
                          | None => try_cands provef goal depth f rest end
          | (false, _) => try_cands provef goal depth f rest
          end
      end
  end.

Fixpoint search (fuel : nat) (goal : bcond) (cands : list brule) (depth : Z) (f : facts) {struct fuel} : bool * facts :=
  match fuel with
  | O => (false, f)
  | S fu =>
      if max_depth <? depth then (false, f)
      else if goal_holds f goal then (true, f)
      else try_cands (prove fu) goal depth f cands
  end
with prove (fuel : nat) (g : bgroup) (depth : Z) (f : facts) {struct fuel} : bool * facts :=
  match fuel with
  | O => (false, f)
  | S fu =>
      match g with
      | BSingle c => if bholds f c then (true, f) else search fu (subgoal_of c) (sub_candidates c) depth f
      | BAnd a b => match prove fu a depth f with
                    | (true, f1) => prove fu b depth f1
                    | (false, f1) => (false, f1) end
      | BOr a b => match prove fu a depth f with
                   | (true, f1) => (true, f1)
                   | (false, f1) => prove fu b depth f1 end
      end
  end.
End Search.

(** root candidates: rules assigning exactly the goal's field, plus (dotted field) every rule assigning a
    field that starts with the object part; if there are none, rules whose assigned field occurs in the
    pattern *)
Fixpoint rfind_dot (s : str) (pos : Z) (last : option Z) : option Z :=
  match s with [] => last | c :: r => rfind_dot r (pos + 1) (if c =? 46 then Some pos else last) end.
Definition object_part (field : str) : option str :=
  match rfind_dot field 0 None with Some p => Some (firstn (Z.to_nat p) field) | None => None end.
Definition root_candidates (rules : list brule) (goal : bcond) : list brule :=
  let direct r := existsb (fun kv => str_eqb (fst kv) (b_field goal)) (br_sets r) in
  let byobj r := match object_part (b_field goal) with
                 | Some o => existsb (fun kv => str_starts (fst kv) o) (br_sets r) | None => false end in
  let c := filter (fun r => direct r || byobj r) rules in
  match c with
  | [] => filter (sets_field_in (pattern_of goal [])) rules
  | _ => c end.

Definition fuel_for (rules : list brule) (max_depth : Z) : nat := S (Z.to_nat (max_depth + 2) * 64)%nat.

Definition dfs (rules : list brule) (max_depth : Z) (goal : bcond) (f : facts) : bool * facts :=
  search rules max_depth (fuel_for rules max_depth) goal (root_candidates rules goal) 0 f.

(** iterative deepening: the probe succeeds as soon as the goal has a candidate rule, and the executing
    search then runs with depth limit 0 *)
Definition ids (rules : list brule) (max_depth : Z) (goal : bcond) (f : facts) : bool * facts :=
  match root_candidates rules goal with
  | [] => (false, f)
  | _ => dfs rules 0 goal f end.

(** ---------- specification: derivable atoms ---------- *)
(** many-valued forward closure: the set of (field, value) pairs reachable by firing rules whose
    conditions hold of some choice of derived values; [D] is a list of atoms *)
Definition atoms := list (str * value).
Definition atom_holds (D : atoms) (c : bcond) : bool :=
  existsb (fun kv => str_eqb (fst kv) (b_field c) && op_eval (b_op c) (snd kv) (b_val c)) D.
Fixpoint group_holds (D : atoms) (g : bgroup) : bool :=
  match g with BSingle c => atom_holds D c | BAnd a b => group_holds D a && group_holds D b | BOr a b => group_holds D a || group_holds D b end.
Definition step_closure (rules : list brule) (D : atoms) : atoms :=
  D ++ flat_map (fun r => if group_holds D (br_cond r) then br_sets r else []) rules.
Fixpoint closure (n : nat) (rules : list brule) (D : atoms) : atoms :=
  match n with O => D | S k => closure k rules (step_closure rules D) end.
Definition goal_in_closure (rules : list brule) (f : facts) (g : bcond) : bool :=
  let D := closure (S (length rules)) rules f in
  existsb (fun kv => str_eqb (fst kv) (b_field g) &&
                     (op_eval (b_op g) (snd kv) (b_val g)
                      || match b_val g, snd kv with VNum n, VInt _ => is_whole_small n && op_eval (b_op g) (snd kv) (VInt (f_to_i64 n)) | _, _ => false end)) D.

(** closed sets of atoms: the forward closure is the least set of atoms that contains the facts and is closed under the rules *)
Definition scalar (v : value) : Prop := match v with VObj _ => False | _ => True end.
Definition flat (f : facts) : Prop := forall k v, fget f k = Some v -> scalar v.

Definition positive_op (o : oper) : bool := match o with ONe | ONotContains => false | _ => true end.
Fixpoint positive (g : bgroup) : bool :=
  match g with BSingle c => positive_op (b_op c) | BAnd a b | BOr a b => positive a && positive b end.

Definition holdsD (D : atoms) (c : bcond) : Prop := exists v, In (b_field c, v) D /\ op_eval (b_op c) v (b_val c) = true.
Fixpoint gholdsD (D : atoms) (g : bgroup) : Prop :=
  match g with BSingle c => holdsD D c | BAnd a b => gholdsD D a /\ gholdsD D b | BOr a b => gholdsD D a \/ gholdsD D b end.
Definition closedD (rules : list brule) (D : atoms) : Prop :=
  forall r, In r rules -> gholdsD D (br_cond r) -> forall kv, In kv (br_sets r) -> In kv D.
Definition covers (D : atoms) (f : facts) : Prop := flat f /\ forall k v, fget f k = Some v -> In (k, v) D.
Definition horn (rules : list brule) : Prop :=
  forall r, In r rules -> positive (br_cond r) = true /\ forall kv, In kv (br_sets r) -> scalar (snd kv).

(** the goal test depends on the store only through the value found for the goal's field *)
Definition goal_sat (o : option value) (g : bcond) : bool :=
  let g' := match b_val g, o with
            | VNum n, Some (VInt _) => if is_whole_small n then {| b_field := b_field g; b_op := b_op g; b_val := VInt (f_to_i64 n) |} else g
            | _, _ => g end in
  match o with
  | Some v => op_eval (b_op g') v (b_val g')
  | None => match b_op g' with ONe => true | _ => false end
  end.

(** derivations of bounded height through conjunctive rules on a single-valued, monotone store:
    level 0 = the facts; level h+1 = fire every rule whose conditions hold at level h *)
Fixpoint level (h : nat) (rules : list brule) (f : facts) : facts :=
  match h with
  | O => f
  | S k => let g := level k rules f in
           fold_left (fun acc r => if gholds g (br_cond r) then bexec acc r else acc) rules g
  end.

(** ---------- the engine with its memo table ---------- *)
Record bengine := { memo : list (sx * sx * bool) }.   (* (query, facts) -> verdict *)
Definition memo_get (e : bengine) (q fx : sx) : option bool :=
  (fix go l := match l with [] => None | (q', f', b) :: r => if sx_eqb q q' && sx_eqb fx f' then Some b else go r end) (memo e).
Definition equery (rules : list brule) (max_depth : Z) (e : bengine) (q : sx) (goal : bcond) (f : facts) : bengine * (bool * facts) :=
  let fx := enc_facts f in
  match memo_get e q fx with
  | Some false => (e, (false, f))
  | _ => let r := dfs rules max_depth goal f in
         ({| memo := (q, fx, fst r) :: memo e |}, r)
  end.

(** ---------- wire format ----------
    case = (kind strategy max_depth max_solutions (rule ...) facts ops)
      rule = (cond ((field value) ...))   cond = (0 field op value) | (1 a b) | (2 a b)
      ops  = list of (0 goal) query | (1 field value) set a fact | (2 field) remove a fact,  goal = (field op value)
    observation: per op ()  or  (provable goal-holds-in-returned-facts facts)                                *)
Definition dec_bcond (s : sx) : option bcond :=
  match s with
  | L [f; A o; v] => match getZs f, (match o with 0 => Some OEq | 1 => Some ONe | 2 => Some OGt | 3 => Some OGe | 4 => Some OLt | 5 => Some OLe | 6 => Some OContains | 8 => Some OStartsWith | 9 => Some OEndsWith | _ => None end), dec_val v with
                     | Some f, Some o, Some v => Some {| b_field := f; b_op := o; b_val := v |} | _, _, _ => None end
  | _ => None end.
Fixpoint dec_bgroup (s : sx) : option bgroup :=
  match s with
  | L [A 0; f; o; v] => match dec_bcond (L [f; o; v]) with Some c => Some (BSingle c) | None => None end
  | L [A 1; a; b] => match dec_bgroup a, dec_bgroup b with Some a, Some b => Some (BAnd a b) | _, _ => None end
  | L [A 2; a; b] => match dec_bgroup a, dec_bgroup b with Some a, Some b => Some (BOr a b) | _, _ => None end
  | _ => None end.
Definition dec_brule (s : sx) : option brule :=
  match s with
  | L [c; L sets] => match dec_bgroup c, mapO (fun x => match x with L [k; v] => match getZs k, dec_val v with Some k, Some v => Some (k, v) | _, _ => None end | _ => None end) sets with
                     | Some c, Some sets => Some {| br_cond := c; br_sets := sets |} | _, _ => None end
  | _ => None end.

(** QNoise: an aggregate query that fails after the engine has changed its own configuration for it (must be invisible) *)
Inductive bop := QAsk (g : bcond) (q : sx) | QSet (k : str) (v : value) | QDel (k : str) | QNoise.
Definition dec_bop (s : sx) : option bop :=
  match s with
  (* the query text is `field op literal`: like every goal pattern, an integer literal is read back as a float (and compared as an
     integer when the fact holds an integer) *)
  | L [A 0; g] => match dec_bcond g with Some c => Some (QAsk (subgoal_of c) g) | None => None end
  | L [A 1; k; v] => match getZs k, dec_val v with Some k, Some v => Some (QSet k v) | _, _ => None end
  | L [A 2; k] => match getZs k with Some k => Some (QDel k) | None => None end
  | L [A 3] => Some QNoise
  | _ => None end.

Fixpoint fdel (f : facts) (k : str) : facts :=
  match f with [] => [] | (k', v) :: r => if str_eqb k' k then r else (k', v) :: fdel r k end.

(** strategy 0 = depth-first, 1 = breadth-first (not predicted), 2 = iterative *)
Fixpoint run_ops (rules : list brule) (strategy max_depth : Z) (e : bengine) (f : facts) (ops : list bop) : list sx :=
  match ops with
  | [] => []
  | QSet k v :: r => L [] :: run_ops rules strategy max_depth e (fset f k v) r
  | QDel k :: r => L [] :: run_ops rules strategy max_depth e (fdel f k) r
  | QNoise :: r => L [] :: run_ops rules strategy max_depth e f r
  | QAsk g q :: r =>
      let '(e', (ok, f')) :=
        if strategy =? 0 then equery rules max_depth e q g f
        else
          (* the memo table is the same for every strategy; iterative deepening is modelled by [ids] *)
          match memo_get e q (enc_facts f) with
          | Some false => (e, (false, f))
          | _ => let res := ids rules max_depth g f in ({| memo := (q, enc_facts f, fst res) :: memo e |}, res) end in
      L [sxB ok] :: run_ops rules strategy max_depth e' f' r
  end.

Definition dec_bcase (c : sx) : option (Z * Z * bool * list brule * facts * list bop) :=
  match c with
  | L [A strategy; A md; A _; A det; L rs; f; L ops] =>
      match mapO dec_brule rs, dec_facts f, mapO dec_bop ops with
      | Some rs, Some f, Some ops => Some (strategy, md, negb (det =? 0), rs, f, ops) | _, _, _ => None end
  | _ => None end.

(** model prediction: the verdict of every query, for depth-first and iterative search on rule sets in
    which every field is assigned by at most one rule (flag det: the outcome does not depend on the
    iteration order of the candidate hash set); the second component (-997) tells the comparison that
    the details observed by the harness (facts before and after) are not predicted *)
(** the root candidates of a goal on a dotted field include every rule that assigns ANY field of the same object (byobj), tried in
    hash-set order: the facts a proof leaves behind are only predictable when no two rules assign fields of one object *)
Definition rule_objs (r : brule) : list str :=
  flat_map (fun kv => match object_part (fst kv) with Some o => [o] | None => [] end) (br_sets r).
Fixpoint obj_unique (rs : list brule) : bool :=
  match rs with
  | [] => true
  | r :: rest => forallb (fun o => forallb (fun r' => negb (existsb (str_eqb o) (rule_objs r'))) rest) (rule_objs r) && obj_unique rest
  end.

Definition run_sx (c : sx) : sx :=
  match dec_bcase c with
  | Some (strategy, md, det, rs, f, ops) =>
      (* a single query's verdict never depends on the candidate order: the root candidates are tried from the same
         facts and the first success wins; in a history the facts handed back do depend on it *)
      if (strategy =? 1) || negb ((det && obj_unique rs) || (Nat.leb (length ops) 1)) then L [A (-998)]
      else L [L (run_ops rs strategy md {| memo := [] |} f ops); L [A (-997)]]
  | None => sx_bad end.

(** monitor on the implementation's observations.  Per query the harness reports
    (provable  facts-before  facts-after).  Checked, per query:
      soundness    : provable -> the goal holds in the facts handed back, and the goal is in the forward
                     closure of the rules on the facts the query was asked on;
      completeness : (depth-first, conjunctive rules, single-valued monotone instance) the goal holds at level
                     max_depth of the bounded derivation -> provable;
      independence : the verdict is the one a fresh engine gives on those facts (depth-first, iterative). *)
Definition conjunctive (rs : list brule) : bool :=
  forallb (fun r => (fix nj (g : bgroup) : bool := match g with BSingle _ => true | BAnd a b => nj a && nj b | BOr _ _ => false end) (br_cond r)) rs.

(** a single-valued, monotone instance: no field is given two different values by the facts and the rules *)
Definition monotone (rs : list brule) (f : facts) : bool :=
  let atoms := f ++ flat_map br_sets rs in
  forallb (fun kv => forallb (fun kv' => negb (str_eqb (fst kv) (fst kv')) || val_same (snd kv) (snd kv')) atoms) atoms.

Fixpoint ok_ops (unch : bool) (rules : list brule) (strategy max_depth : Z) (det : bool) (ops : list bop) (obs : list sx) : bool :=
  match ops, obs with
  | [], [] => true
  | QAsk g q :: r, L (A p :: fb :: fa :: same) :: o =>
      match dec_facts fb, dec_facts fa with
      | Some fb, Some fa =>
          let provable := negb (p =? 0) in
          let sound := negb provable || (goal_holds fa g && goal_in_closure rules fb g) in
          let complete := negb ((strategy =? 0) && conjunctive rules && monotone rules fb && goal_holds (level (Z.to_nat max_depth) rules fb) g) || provable in
          let fresh := if strategy =? 1 then true
                       else Bool.eqb provable (fst (if strategy =? 0 then dfs rules max_depth g fb else ids rules max_depth g fb)) in
          (* C10: a query reported not provable leaves the caller's facts exactly as they were *)
          let unchanged := negb unch || provable || sx_eqb (enc_facts fb) (enc_facts fa) in
          (* reported by the harness: the whole QueryResult (verdict; number of solutions when max_solutions = 1) is the one a freshly
             built engine returns on the same facts *)
          let same_as_fresh := match same with [A 0] => false | _ => true end in
          sound && complete && fresh && unchanged && same_as_fresh && ok_ops unch rules strategy max_depth det r o
      | _, _ => false end
  | (QSet _ _ | QDel _ | QNoise) :: r, L [] :: o => ok_ops unch rules strategy max_depth det r o
  | _, _ => false
  end.

Definition ok_sx_gen (unch : bool) (c o : sx) : bool :=
  match dec_bcase c, o with
  | Some (strategy, md, det, rs, f, ops), L [_; L obs] => ok_ops unch rs strategy md det ops obs
  | _, _ => false end.
Definition ok_sx (c o : sx) : bool := ok_sx_gen false c o.
(** C10, query part: case = (1 backward-case) *)
Definition ok_sx_c10 (c o : sx) : bool := ok_sx_gen true c o.

(** ---------- are the hypotheses of the bounded-completeness theorem (Properties/C09.v) met by a case?  Boolean versions, used only
    to COUNT in the evidence how many monitored cases the theorem speaks about (code -2 = monitored, outside the hypotheses) ---------- *)
Fixpoint gdepth_b (g : bgroup) : nat := match g with BSingle _ => O | BAnd a b | BOr a b => S (Nat.max (gdepth_b a) (gdepth_b b)) end.
Definition scalar_b (v : value) : bool := match v with VObj _ => false | _ => true end.
Definition is_int_b (v : value) : bool := match v with VInt _ => true | _ => false end.
Definition lit_ok_b (D : atoms) (c : bcond) : bool :=
  let vals := map snd (filter (fun kv => str_eqb (fst kv) (b_field c)) D) in
  match b_val c with
  | VInt z => is_whole_small (f_of_Z z) && (f_to_i64 (f_of_Z z) =? z) && forallb is_int_b vals
  | VNum _ => forallb (fun v => negb (is_int_b v)) vals
  | _ => true end.
Fixpoint glit_ok_b (D : atoms) (g : bgroup) : bool :=
  match g with BSingle c => lit_ok_b D c | BAnd a b | BOr a b => glit_ok_b D a && glit_ok_b D b end.
Definition single_valued_b (D : atoms) : bool :=
  forallb (fun kv => forallb (fun kv' => negb (str_eqb (fst kv) (fst kv')) || sx_eqb (enc_val (snd kv)) (enc_val (snd kv'))) D) D.
Definition thm_hyps_b (rules : list brule) (f0 : facts) : bool :=
  let D := f0 ++ flat_map br_sets rules in
  forallb (fun kv => scalar_b (snd kv)) D && single_valued_b D
  && forallb (fun r => positive (br_cond r) && conjunctive [r] && glit_ok_b D (br_cond r) && Nat.leb (gdepth_b (br_cond r)) 62) rules.
Definition hyps_sx (c : sx) : bool :=
  match dec_bcase c with Some (_, _, _, rs, f, _) => thm_hyps_b rs f | None => false end.
