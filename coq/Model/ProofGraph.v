(** C17 — model of src/backward/proof_graph.rs (ProofGraph insert_proof / invalidate_handle /
    propagate_invalidation / is_proven), after the repair "fix: proof graph propagates through the
    global dependency index" (the recursion walks [dependencies], not the per-node [dependents]).
    Definitions only.

    Rust items modelled:
      proof_graph.rs::ProofGraphNode::{add_justification, remove_justifications_with_premise}
      proof_graph.rs::ProofGraph::{insert_proof, lookup_by_key, is_proven, invalidate_handle,
                                   propagate_invalidation}
    Not modelled: per-node [dependents] (written, no longer read by the propagation), statistics,
    bindings, generation numbers.  HashSet iteration order of [dependencies] is modelled as
    insertion order; the result does not depend on it (spec below is order-free). *)
From RRE Require Import Base.Sx.
Open Scope N_scope.

Record node := { n_h : N; n_key : N; n_justs : list (list N); n_valid : bool }.

Record pg := {
  nodes : list node;               (* nodes_by_handle *)
  index : list (N * N);            (* index_by_key: (key, handle) in push order *)
  deps : list (N * N)              (* dependencies: (premise, dependent) edges, set-like *)
}.

Definition init : pg := {| nodes := []; index := []; deps := [] |}.

Definition find_node (ns : list node) (h : N) : option node :=
  find (fun n => N.eqb (n_h n) h) ns.

Definition upd_node (ns : list node) (n' : node) : list node :=
  map (fun n => if N.eqb (n_h n) (n_h n') then n' else n) ns.

Definition has_edge (d : list (N * N)) (p h : N) : bool :=
  existsb (fun e => N.eqb (fst e) p && N.eqb (snd e) h) d.

Definition add_edges (d : list (N * N)) (h : N) (ps : list N) : list (N * N) :=
  fold_left (fun d p => if has_edge d p h then d else d ++ [(p, h)]) ps d.

Definition deps_of (d : list (N * N)) (p : N) : list N :=
  map snd (filter (fun e => N.eqb (fst e) p) d).

Definition insert_proof (g : pg) (h key : N) (ps : list N) : pg :=
  let ns := match find_node (nodes g) h with
            | Some n => upd_node (nodes g) {| n_h := h; n_key := n_key n; n_justs := n_justs n ++ [ps]; n_valid := true |}
            | None => nodes g ++ [{| n_h := h; n_key := key; n_justs := [ps]; n_valid := true |}]
            end in
  {| nodes := ns; index := index g ++ [(key, h)]; deps := add_edges (deps g) h ps |}.

Definition is_proven (g : pg) (key : N) : bool :=
  existsb (fun e => N.eqb (fst e) key &&
                    match find_node (nodes g) (snd e) with Some n => n_valid n | None => false end) (index g).

(** propagate_invalidation(dependent d, premise p) *)
Fixpoint propagate (fuel : nat) (dp : list (N * N)) (ns : list node) (d p : N) : list node :=
  match fuel with
  | O => ns
  | S f =>
      match find_node ns d with
      | None => ns
      | Some n =>
          let js' := filter (fun J => negb (memN p J)) (n_justs n) in
          let changed := negb (Nat.eqb (length js') (length (n_justs n))) in
          let valid' := match js' with [] => false | _ => n_valid n end in
          let ns1 := upd_node ns {| n_h := d; n_key := n_key n; n_justs := js'; n_valid := valid' |} in
          if changed && negb valid'
          then fold_left (fun ns fd => propagate f dp ns fd d) (deps_of dp d) ns1
          else ns1
      end
  end.

Definition total_justs (ns : list node) : nat :=
  fold_right (fun n a => (length (n_justs n) + a)%nat) O ns.

Definition invalidate (g : pg) (h : N) : pg :=
  let ns0 := match find_node (nodes g) h with
             | Some n => upd_node (nodes g) {| n_h := h; n_key := n_key n; n_justs := n_justs n; n_valid := false |}
             | None => nodes g end in
  let ns1 := fold_left (fun ns d => propagate (S (total_justs ns0)) (deps g) ns d h) (deps_of (deps g) h) ns0 in
  {| nodes := ns1; index := index g; deps := deps g |}.

Inductive op := Insert (h key : N) (ps : list N) | Invalidate (h : N) | IsProven (key : N).

Definition step (g : pg) (o : op) : pg * bool :=
  match o with
  | Insert h k ps => (insert_proof g h k ps, true)
  | Invalidate h => (invalidate g h, true)
  | IsProven k => (g, is_proven g k)
  end.

(** observation after each op: the op's result; per handle 0..nh-1 (exists, valid, #justs);
    is_proven for every key 0..nk-1 *)
Record obs := { o_res : bool; o_nodes : list (bool * bool * N); o_proven : list bool }.

Fixpoint upto (n : nat) : list N :=
  match n with O => [] | S k => upto k ++ [N.of_nat k] end.

Definition observe (nh nk : nat) (g : pg) (res : bool) : obs :=
  {| o_res := res;
     o_nodes := map (fun h => match find_node (nodes g) h with
                              | Some n => (true, n_valid n, lenN (n_justs n))
                              | None => (false, false, 0) end) (upto nh);
     o_proven := map (is_proven g) (upto nk) |}.

Fixpoint run_from (nh nk : nat) (g : pg) (ops : list op) : list obs :=
  match ops with
  | [] => []
  | o :: r => let '(g', res) := step g o in observe nh nk g' res :: run_from nh nk g' r
  end.

Definition run (nh nk : nat) (ops : list op) : list obs := run_from nh nk init ops.

(** ------------------------------------------------------------------ *)
(** Specification, order-free: a handle "dies" when it is invalidated directly, or when it had
    justifications and every one of them uses a dead premise.  [Dead] is the least such set. *)
Definition hits (Dead : list N) (J : list N) : bool := existsb (fun p => memN p Dead) J.

Definition dead_round (ns : list node) (Dead : list N) : list N :=
  fold_left (fun D n =>
     if negb (memN (n_h n) D)
        && match n_justs n with [] => false | _ => true end
        && forallb (hits D) (n_justs n)
     then D ++ [n_h n] else D) ns Dead.

Fixpoint dead_iter (k : nat) (ns : list node) (Dead : list N) : list N :=
  match k with O => Dead | S k' => dead_iter k' ns (dead_round ns Dead) end.

Definition spec_invalidate (g : pg) (h : N) : pg :=
  let Dead := dead_iter (S (length (nodes g))) (nodes g) [h] in
  {| nodes := map (fun n => {| n_h := n_h n; n_key := n_key n;
                               n_justs := filter (fun J => negb (hits Dead J)) (n_justs n);
                               n_valid := if memN (n_h n) Dead then false else n_valid n |}) (nodes g);
     index := index g; deps := deps g |}.

Definition spec_step (g : pg) (o : op) : pg * bool :=
  match o with
  | Insert h k ps => (insert_proof g h k ps, true)
  | Invalidate h => (spec_invalidate g h, true)
  | IsProven k => (g, is_proven g k)
  end.

(** quantifier side condition: a handle that has been invalidated (directly or by losing every
    justification) is never used as a premise of a later insertion.  [gone] accumulates them. *)
Definition invalid_handles (g : pg) : list N :=
  map n_h (filter (fun n => negb (n_valid n)) (nodes g)).

(** [gone]: handles invalidated directly, or that lost every justification, at any earlier time *)
Definition op_wf (gone : list N) (o : op) : bool :=
  match o with
  | Insert _ _ ps => negb (existsb (fun p => memN p gone) ps)
  | _ => true
  end.

Definition enc_obs (o : obs) : sx :=
  L [sxB (o_res o);
     L (map (fun t => match t with (e, v, n) => L [sxB e; sxB v; sxN n] end) (o_nodes o));
     L (map sxB (o_proven o))].

(** what the specification says is observable after the op, given the specification's state *)
Fixpoint spec_run_from (nh nk : nat) (g : pg) (gone : list N) (ops : list op) : list (option obs) :=
  match ops with
  | [] => []
  | o :: r =>
      if op_wf gone o then
        let '(g', res) := spec_step g o in
        Some (observe nh nk g' res)
          :: spec_run_from nh nk g' (gone ++ invalid_handles g' ++ match o with Invalidate h => [h] | _ => [] end) r
      else map (fun _ => None) ops      (* outside the quantifier from here on *)
  end.

Fixpoint ok_list (exp : list (option obs)) (os : list sx) : bool :=
  match exp, os with
  | [], [] => true
  | None :: r, _ :: orr => ok_list r orr
  | Some e :: r, o :: orr => sx_eqb (enc_obs e) o && ok_list r orr
  | _, _ => false
  end.

Definition ok (nh nk : nat) (ops : list op) (os : list sx) : bool :=
  ok_list (spec_run_from nh nk init [] ops) os.

(** wire: case = (nh nk (op ...)) ; op = (0 h key (p ...)) | (1 h) | (2 key) *)
Definition dec_op (s : sx) : option op :=
  match s with
  | L [A 0; h; k; ps] => match getN h, getN k, getNs ps with
                         | Some h, Some k, Some ps => Some (Insert h k ps) | _, _, _ => None end
  | L [A 1; h] => match getN h with Some h => Some (Invalidate h) | None => None end
  | L [A 2; k] => match getN k with Some k => Some (IsProven k) | None => None end
  | _ => None end.

Definition dec_case (s : sx) : option (nat * nat * list op) :=
  match s with
  | L [nh; nk; L ops] =>
      match getN nh, getN nk, mapO dec_op ops with
      | Some nh, Some nk, Some ops => Some (N.to_nat nh, N.to_nat nk, ops)
      | _, _, _ => None end
  | _ => None end.

Definition run_sx (c : sx) : sx :=
  match dec_case c with
  | Some (nh, nk, ops) => L (map enc_obs (run nh nk ops))
  | None => sx_bad end.

Definition ok_sx (c o : sx) : bool :=
  match dec_case c, o with
  | Some (nh, nk, ops), L os => ok nh nk ops os
  | _, _ => false end.
