(** C15 — model of src/engine/knowledge_base.rs (sequential semantics of every public method
    used by the property) and a linearizability checker for concurrent histories.
    Definitions only.

    Rust items modelled:
      knowledge_base.rs::KnowledgeBase::{add_rule, remove_rule, get_rule, get_rules, set_rule_enabled,
                                         clear, version, rule_count}
    A rule is (name, salience, enabled, tag); [tag] identifies the add operation that created it
    (the harness stores it in Rule.description).  Conditions/actions are irrelevant here.
    Each method takes all the locks it needs at its start and releases them at its end (checked by
    tools/consts.py against the source), so a method body is modelled as one atomic step; what is
    then left to check for concurrent runs is linearizability of the observed histories. *)
From RRE Require Import Base.Sx.
Open Scope Z_scope.

Record rule := { r_name : Z; r_sal : Z; r_enabled : bool; r_tag : Z }.

Record kb := { rules : list rule; index : list (Z * nat); version : Z }.

Definition init : kb := {| rules := []; index := []; version := 0 |}.

Fixpoint idx_get (ix : list (Z * nat)) (n : Z) : option nat :=
  match ix with [] => None | (k, p) :: r => if Z.eqb k n then Some p else idx_get r n end.

(** HashMap::insert semantics while rebuilding: later positions overwrite earlier ones *)
Definition idx_insert (ix : list (Z * nat)) (n : Z) (p : nat) : list (Z * nat) :=
  (n, p) :: filter (fun e => negb (Z.eqb (fst e) n)) ix.

Fixpoint rebuild_from (p : nat) (rs : list rule) (ix : list (Z * nat)) : list (Z * nat) :=
  match rs with [] => ix | r :: rest => rebuild_from (S p) rest (idx_insert ix (r_name r) p) end.
Definition rebuild (rs : list rule) : list (Z * nat) := rebuild_from 0 rs [].

(** Vec::sort_by_key(Reverse(salience)) — a stable sort: insertion keeps earlier-equal first *)
Fixpoint insert_stable (x : rule) (l : list rule) : list rule :=
  match l with
  | [] => [x]
  | y :: r => if r_sal y <? r_sal x then x :: l else y :: insert_stable x r
  end.
Definition stable_sort (l : list rule) : list rule :=
  fold_left (fun acc x => insert_stable x acc) l [].

Fixpoint remove_nth {T} (n : nat) (l : list T) : list T :=
  match n, l with
  | _, [] => []
  | O, _ :: r => r
  | S k, x :: r => x :: remove_nth k r
  end.

Fixpoint set_enabled_nth (n : nat) (b : bool) (l : list rule) : option (list rule) :=
  match n, l with
  | _, [] => None
  | O, x :: r => Some ({| r_name := r_name x; r_sal := r_sal x; r_enabled := b; r_tag := r_tag x |} :: r)
  | S k, x :: r => match set_enabled_nth k b r with Some r' => Some (x :: r') | None => None end
  end.

Inductive op :=
| Add (n sal tag : Z)
| Remove (n : Z)
| Enable (n : Z) (b : bool)
| Clear
| Get (n : Z)
| Version
| Listing.

(** results *)
Inductive res :=
| RBool (b : bool)                 (* Add: Ok = true / Err = false; Remove, Enable: the returned bool *)
| RUnit
| RRule (r : option rule)
| RNum (z : Z)
| RList (l : list rule).

Definition step (k : kb) (o : op) : kb * res :=
  match o with
  | Add n sal tag =>
      match idx_get (index k) n with
      | Some _ => (k, RBool false)
      | None =>
          let rs := stable_sort (rules k ++ [{| r_name := n; r_sal := sal; r_enabled := true; r_tag := tag |}]) in
          ({| rules := rs; index := rebuild rs; version := version k + 1 |}, RBool true)
      end
  | Remove n =>
      match idx_get (index k) n with
      | Some p => let rs := remove_nth p (rules k) in
                  ({| rules := rs; index := rebuild rs; version := version k + 1 |}, RBool true)
      | None => (k, RBool false)
      end
  | Enable n b =>
      match idx_get (index k) n with
      | Some p => match set_enabled_nth p b (rules k) with
                  | Some rs => ({| rules := rs; index := index k; version := version k + 1 |}, RBool true)
                  | None => (k, RBool false) end
      | None => (k, RBool false)
      end
  | Clear => ({| rules := []; index := []; version := version k + 1 |}, RUnit)
  | Get n => (k, RRule (match idx_get (index k) n with Some p => nth_error (rules k) p | None => None end))
  | Version => (k, RNum (version k))
  | Listing => (k, RList (rules k))
  end.

(** ------------------------------------------------------------------ *)
(** Abstract specification: a bag of (seq, rule) with unique names; the listing is sorted by
    salience descending, insertion sequence ascending. *)
Record srule := { s_seq : Z; s_rule : rule }.
Record skb := { srules : list srule (* insertion order *); snext : Z; sversion : Z }.
Definition sinit : skb := {| srules := []; snext := 0; sversion := 0 |}.

Definition sfind (l : list srule) (n : Z) : option srule := find (fun s => Z.eqb (r_name (s_rule s)) n) l.

Definition before (a b : srule) : bool :=
  (r_sal (s_rule b) <? r_sal (s_rule a)) || ((r_sal (s_rule a) =? r_sal (s_rule b)) && (s_seq a <? s_seq b)).

Fixpoint sinsert (x : srule) (l : list srule) : list srule :=
  match l with [] => [x] | y :: r => if before x y then x :: l else y :: sinsert x r end.
Definition slisting (k : skb) : list rule := map s_rule (fold_left (fun acc x => sinsert x acc) (srules k) []).

Definition sstep (k : skb) (o : op) : skb * res :=
  match o with
  | Add n sal tag =>
      match sfind (srules k) n with
      | Some _ => (k, RBool false)
      | None => ({| srules := srules k ++ [{| s_seq := snext k; s_rule := {| r_name := n; r_sal := sal; r_enabled := true; r_tag := tag |} |}];
                    snext := snext k + 1; sversion := sversion k + 1 |}, RBool true)
      end
  | Remove n =>
      match sfind (srules k) n with
      | Some _ => ({| srules := filter (fun s => negb (Z.eqb (r_name (s_rule s)) n)) (srules k);
                      snext := snext k; sversion := sversion k + 1 |}, RBool true)
      | None => (k, RBool false)
      end
  | Enable n b =>
      match sfind (srules k) n with
      | Some _ => ({| srules := map (fun s => if Z.eqb (r_name (s_rule s)) n
                                              then {| s_seq := s_seq s; s_rule := {| r_name := n; r_sal := r_sal (s_rule s); r_enabled := b; r_tag := r_tag (s_rule s) |} |}
                                              else s) (srules k);
                      snext := snext k; sversion := sversion k + 1 |}, RBool true)
      | None => (k, RBool false)
      end
  | Clear => ({| srules := []; snext := snext k; sversion := sversion k + 1 |}, RUnit)
  | Get n => (k, RRule (option_map s_rule (sfind (srules k) n)))
  | Version => (k, RNum (sversion k))
  | Listing => (k, RList (slisting k))
  end.

(** ------------------------------------------------------------------ *)
(** encoding of results; full observation after each sequential op *)
Definition enc_rule (r : rule) : sx := L [A (r_name r); A (r_sal r); sxB (r_enabled r); A (r_tag r)].
Definition enc_res (r : res) : sx :=
  match r with
  | RBool b => L [A 0; sxB b]
  | RUnit => L [A 1]
  | RRule o => L [A 2; sxO enc_rule o]
  | RNum z => L [A 3; A z]
  | RList l => L [A 4; L (map enc_rule l)]
  end.

Definition names : list Z := [0; 1; 2; 3].

Definition observe (k : kb) (r : res) : sx :=
  L [enc_res r; L (map enc_rule (rules k));
     L (map (fun n => sxO enc_rule (match idx_get (index k) n with Some p => nth_error (rules k) p | None => None end)) names);
     A (version k)].
Definition sobserve (k : skb) (r : res) : sx :=
  L [enc_res r; L (map enc_rule (slisting k));
     L (map (fun n => sxO enc_rule (option_map s_rule (sfind (srules k) n))) names);
     A (sversion k)].

Fixpoint run_from (k : kb) (ops : list op) : list sx :=
  match ops with [] => [] | o :: r => let '(k', res) := step k o in observe k' res :: run_from k' r end.
Fixpoint srun_from (k : skb) (ops : list op) : list sx :=
  match ops with [] => [] | o :: r => let '(k', res) := sstep k o in sobserve k' res :: srun_from k' r end.

(** ------------------------------------------------------------------ *)
(** Linearizability of a concurrent history against the sequential specification.
    An event = (op, result as encoded sx, invocation time, response time). *)
Record cevent := { c_op : op; c_res : sx; c_inv : Z; c_resp : Z }.

Fixpoint remove_at {T} (n : nat) (l : list T) : list T :=
  match n, l with _, [] => [] | O, _ :: r => r | S k, x :: r => x :: remove_at k r end.

(** may e be linearised first among [pending]?  no other pending op responded before e was invoked *)
Definition minimal (e : cevent) (pending : list cevent) : bool :=
  forallb (fun f => negb (c_resp f <? c_inv e)) pending.

Fixpoint lin (fuel : nat) (k : skb) (pending : list cevent) : bool :=
  match pending with
  | [] => true
  | _ =>
      match fuel with
      | O => false
      | S f =>
          (fix try (i : nat) (cands : list cevent) : bool :=
             match cands with
             | [] => false
             | e :: rest =>
                 (minimal e pending &&
                  (let '(k', r) := sstep k (c_op e) in
                   sx_eqb (enc_res r) (c_res e) && lin f k' (remove_at i pending)))
                 || try (S i) rest
             end) O pending
      end
  end.

(** ------------------------------------------------------------------ *)
(** wire.  sequential case = (0 (op ...)); concurrent case = (1 (prefix op ...) ((op ...) ... one program per thread)),
    observation of a concurrent case = ((tid idx result inv resp) ...), times from one global atomic counter.
    op = (0 n sal tag) | (1 n) | (2 n b) | (3) | (4 n) | (5) | (6) *)
Definition dec_op (s : sx) : option op :=
  match s with
  | L [A 0; A n; A sal; A tag] => Some (Add n sal tag)
  | L [A 1; A n] => Some (Remove n)
  | L [A 2; A n; b] => option_map (Enable n) (getB b)
  | L [A 3] => Some Clear
  | L [A 4; A n] => Some (Get n)
  | L [A 5] => Some Version
  | L [A 6] => Some Listing
  | _ => None end.

Definition sexec (k : skb) (ops : list op) : skb := fold_left (fun k o => fst (sstep k o)) ops k.
Definition exec (k : kb) (ops : list op) : kb := fold_left (fun k o => fst (step k o)) ops k.

(** "no prediction": the outcome of a concurrent run is not a function of the case; such cases are
    judged by the monitor only (tools/check does not diff them) *)
Definition sx_nopred : sx := L [A (-998)].

Definition run_sx (c : sx) : sx :=
  match c with
  | L [A 0; L ops] => match mapO dec_op ops with Some ops => L (run_from init ops) | None => sx_bad end
  | L [A 1; L pre; L progs] => sx_nopred
  | _ => sx_bad end.

(** observation of a concurrent case: ((tid idx result inv resp) ...) , one per executed op *)
Definition dec_cobs (progs : list (list op)) (s : sx) : option cevent :=
  match s with
  | L [t; i; r; A inv; A resp] =>
      match getN t, getN i with
      | Some t, Some i =>
          match nth_error progs (N.to_nat t) with
          | Some prog => match nth_error prog (N.to_nat i) with
                         | Some o => Some {| c_op := o; c_res := r; c_inv := inv; c_resp := resp |}
                         | None => None end
          | None => None end
      | _, _ => None end
  | _ => None end.

Fixpoint mapO2 {X Y} (f : X -> option Y) (l : list X) : option (list Y) :=
  match l with [] => Some [] | x :: r => match f x, mapO2 f r with Some y, Some ys => Some (y :: ys) | _, _ => None end end.

Definition ok_sx (c o : sx) : bool :=
  match c, o with
  | L [A 0; L ops], L os =>
      match mapO dec_op ops with Some ops => sx_eqb (L (srun_from sinit ops)) (L os) | None => false end
  | L [A 1; L pre; L progs], L evs =>
      match mapO dec_op pre, mapO2 (fun p => match p with L ops => mapO dec_op ops | _ => None end) progs with
      | Some pre, Some progs =>
          match mapO (dec_cobs progs) evs with
          | Some ces =>
              Nat.eqb (length ces) (length (concat progs)) &&
              nodupN (map (fun e => match e with L (t :: i :: _) =>
                                      match getN t, getN i with Some t, Some i => (t * 1000 + i)%N | _, _ => 0%N end
                                    | _ => 0%N end) evs) &&
              lin (S (length ces)) (sexec sinit pre) ces
          | None => false end
      | _, _ => false end
  | _, _ => false end.
