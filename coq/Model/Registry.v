(** Dispatch table used by the extracted runner: property number -> model runner / monitor. *)
From RRE Require Import Base.Sx.
From RRE Require Model.Watermark Model.Tms Model.ProofGraph Model.Undo Model.Module Model.Window Model.StreamAlpha Model.Join Model.JoinMgr Model.KB Model.Index Model.State Model.ReteAgenda Model.EngineConc Model.Parallel Model.Incremental Model.ExprShape Model.BwExpr Model.BwSmall Model.ForwardSpec Model.Grl Model.GrlSplit Model.Backward.
Open Scope Z_scope.

Definition run_by_id (id : Z) (c : sx) : sx :=
  match id with
  | 1 => ForwardSpec.run_sx c
  | 2 => EngineConc.run_sx c
  | 3 => EngineConc.run_sx c
  | 4 => match c with
         | L [A 2; t] => match getZs t with Some t => GrlSplit.run_split_args t | None => sx_bad end
         | L [A 3; t; p] => match getZs t, getZs p with Some t, Some p => GrlSplit.run_find t p | _, _ => sx_bad end
         | L [A 4; t] => match getZs t with Some t => GrlSplit.run_then t | None => sx_bad end
         | L [A 5; t] => match getZs t with Some t => GrlSplit.run_when_then t | None => sx_bad end
         | _ => Grl.run_sx c end
  | 5 => match c with
         | L [A 5; t] => match getZs t with Some t => BwExpr.run_text t | None => sx_bad end
         | L [A 4; t] => match getZs t with Some t => BwExpr.run_query_text t | None => sx_bad end
         | L [A 10; t] => match getZs t with Some t => BwSmall.run_agg t | None => sx_bad end
         | L [A 11; t] => match getZs t with Some t => BwSmall.run_disj t | None => sx_bad end
         | L [A 12; t] => match getZs t with Some t => BwSmall.run_nested t | None => sx_bad end
         | L [A 13; t] => match getZs t with Some t => BwSmall.run_has_nested t | None => sx_bad end
         | _ => ExprShape.run_sx c end
  | 6 => Incremental.run_sx c
  | 7 => ReteAgenda.run_sx c
  | 8 => Tms.run_sx c
  | 9 => Backward.run_sx c
  | 11 => Backward.run_sx c
  | 10 => match c with L [A 1; bc] => Backward.run_sx bc | _ => Undo.run_sx c end
  | 12 => match c with L (A 3 :: _) => StreamAlpha.run_sx c | _ => Window.run_sx c end
  | 13 => Watermark.run_sx c
  | 14 => match c with L [A 9; L mops] => JoinMgr.run_mgr_sx mops | _ => Join.run_sx c end
  | 15 => KB.run_sx c
  | 16 => Index.run_sx c
  | 17 => ProofGraph.run_sx c
  | 18 => Module.run_sx c
  | 19 => Parallel.run_sx c
  | 20 => State.run_sx c
  | _ => sx_bad
  end.

(** verdict of the monitor: 1 = the observation satisfies the property's statement on this case,
    0 = it does not, k >= 2 = it does not, and the failure is exactly of the (known) class k *)
Definition b2z (b : bool) : Z := if b then 1 else 0.

Definition ok_by_id (id : Z) (c o : sx) : Z :=
  match id with
  | 1 => ForwardSpec.ok_sx c o
  | 2 => b2z (EngineConc.ok_sx c o)
  | 3 => b2z (EngineConc.ok_sx c o)
  | 4 => match c with
         | L [A 2; t] => match getZs t with Some t => b2z (sx_eqb (GrlSplit.run_split_args t) o) | None => 0 end
         | L [A 3; t; p] => match getZs t, getZs p with Some t, Some p => b2z (sx_eqb (GrlSplit.run_find t p) o) | _, _ => 0 end
         | L [A 4; t] => match getZs t with Some t => b2z (sx_eqb (GrlSplit.run_then t) o) | None => 0 end
         | L [A 5; t] => match getZs t with Some t => b2z (sx_eqb (GrlSplit.run_when_then t) o) | None => 0 end
         | _ => Grl.ok_sx c o end
  | 5 => ExprShape.ok_sx c o
  | 6 => b2z (Incremental.ok_sx c o)
  | 7 => b2z (ReteAgenda.ok_sx c o)
  | 8 => b2z (Tms.ok_sx c o)
  | 9 => if Backward.ok_sx c o then (if Backward.hyps_sx c then 1 else -2) else 0
  | 11 => b2z (Backward.ok_sx c o)
  | 10 => match c with L [A 1; bc] => b2z (Backward.ok_sx_c10 bc o) | _ => b2z (Undo.ok_sx c o) end
  | 12 => match c with L (A 3 :: _) => b2z (StreamAlpha.ok_sx c o) | _ => b2z (Window.ok_sx c o) end
  | 13 => b2z (Watermark.ok_sx c o)
  | 14 => match c with L [A 9; L mops] => b2z (sx_eqb (JoinMgr.run_mgr_sx mops) o) | _ => b2z (Join.ok_sx c o) end
  | 15 => b2z (KB.ok_sx c o)
  | 16 => b2z (Index.ok_sx c o)
  | 17 => b2z (ProofGraph.ok_sx c o)
  | 18 => Module.ok_sx c o
  | 19 => b2z (Parallel.ok_sx c o)
  | 20 => b2z (State.ok_sx c o)
  | _ => 0
  end.
