(** Dispatch table used by the extracted runner: property number -> model runner / monitor. *)
From RRE Require Import Base.Sx.
From RRE Require Model.Watermark Model.Tms Model.ProofGraph Model.Undo.
Open Scope Z_scope.

Definition run_by_id (id : Z) (c : sx) : sx :=
  match id with
  | 8 => Tms.run_sx c
  | 10 => Undo.run_sx c
  | 13 => Watermark.run_sx c
  | 17 => ProofGraph.run_sx c
  | _ => sx_bad
  end.

Definition ok_by_id (id : Z) (c o : sx) : bool :=
  match id with
  | 8 => Tms.ok_sx c o
  | 10 => Undo.ok_sx c o
  | 13 => Watermark.ok_sx c o
  | 17 => ProofGraph.ok_sx c o
  | _ => false
  end.
