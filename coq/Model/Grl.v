(** C04 — GRL rule files: the documented grammar as a syntax tree, what "exactly the rules that were
    written" means as a parsed structure ([exp_rule]), and a model of the hand-written string algorithms
    of src/parser/grl.rs that implement precedence: parse_when_clause, split_logical_operator (after the
    repairs recorded in known_findings.json), parse_not_condition, the parenthesis handling of
    parse_single_condition.  The regular expressions that carve a file into rules, header, when and then
    parts (rexile) are not modelled: their result is observed and compared with [exp_rule].
    Definitions only. *)
From RRE Require Import Base.Sx Base.Float Base.Num Model.ExprShape Model.Forward Model.ForwardSpec.
Open Scope Z_scope.

(** ---------- syntax ---------- *)
Inductive attr :=
| ASal (z : Z) | ANoLoop | ALock | AAgenda (s : str) | AActivation (s : str)
| AEffective (y m d : Z) | AExpires (y m d : Z).

Inductive action :=
| KSet (p : list str) (e : aexp) | KAppend (p : list str) (e : aexp)
| KLog (msg : str) | KRetract (obj : str) | KActivate (g : str) | KSchedule (ms : Z) (r : str) | KComplete (w : str)
| KCustom (name : str) (args : list lit) | KMethod (obj meth : str) (args : list lit).

(** conditions: the typed core of C01 plus redundant parentheses (layout only) *)
Inductive gcond := GC (c : scond) | GParen (c : gcond) | GAnd2 (a b : gcond) | GOr2 (a b : gcond) | GNot2 (a : gcond).
Fixpoint strip (g : gcond) : scond :=
  match g with GC c => c | GParen c => strip c | GAnd2 a b => SAnd (strip a) (strip b) | GOr2 a b => SOr (strip a) (strip b) | GNot2 a => SNot (strip a) end.

Record grule := { g_name : str; g_attrs : list attr; g_cond : gcond; g_acts : list action }.

(** ---------- what was written, as a parsed structure ---------- *)
(** days from 1970-01-01 of a proleptic Gregorian date *)
Definition days_from_civil (y m d : Z) : Z :=
  let y' := if m <=? 2 then y - 1 else y in
  let era := y' / 400 in
  let yoe := y' - era * 400 in
  let mp := if 2 <? m then m - 3 else m + 9 in
  let doy := (153 * mp + 2) / 5 + d - 1 in
  let doe := yoe * 365 + yoe / 4 - yoe / 100 + doy in
  era * 146097 + doe - 719468.

Fixpoint last_attr {T} (pick : attr -> option T) (l : list attr) (acc : option T) : option T :=
  match l with [] => acc | a :: r => last_attr pick r (match pick a with Some x => Some x | None => acc end) end.
Definition first_attr {T} (pick : attr -> option T) (l : list attr) : option T :=
  (fix go l := match l with [] => None | a :: r => match pick a with Some x => Some x | None => go r end end) l.

Definition enc_str (s : str) : sx := L (map A s).
Definition enc_ostr (o : option str) : sx := match o with None => L [] | Some s => L [enc_str s] end.
Definition enc_oZ (o : option Z) : sx := match o with None => L [] | Some z => L [A z] end.

Definition exp_action (a : action) : sx :=
  match a with
  | KSet p e => L [A 0; enc_str (join_dot p); enc_val (parse_val (pr e))]
  | KAppend p e => L [A 1; enc_str (join_dot p); enc_val (parse_val (pr e))]
  | KLog m => L [A 2; enc_str m]
  | KRetract o => L [A 3; enc_str o]
  | KActivate g => L [A 4; enc_str g]
  | KSchedule ms r => L [A 5; A ms; enc_str r]
  | KComplete w => L [A 6; enc_str w]
  | KCustom n args => L [A 8; enc_str n; L (map (fun l => enc_val (parse_val (pr_lit l))) args)]
  | KMethod o m args => L [A 9; enc_str o; enc_str m; L (map (fun l => enc_val (parse_val (pr_lit l))) args)]
  end.

Definition exp_rule (r : grule) : option sx :=
  match compile_cond (strip (g_cond r)) with
  | None => None
  | Some g =>
      let at_ := g_attrs r in
      let sal := match first_attr (fun a => match a with ASal z => Some z | _ => None end) at_ with Some z => z | None => 0 end in
      let nl := existsb (fun a => match a with ANoLoop => true | _ => false end) at_ in
      let lk := existsb (fun a => match a with ALock => true | _ => false end) at_ in
      let ag := first_attr (fun a => match a with AAgenda s => Some s | _ => None end) at_ in
      let ac := first_attr (fun a => match a with AActivation s => Some s | _ => None end) at_ in
      let ef := first_attr (fun a => match a with AEffective y m d => Some (days_from_civil y m d * 86400) | _ => None end) at_ in
      let ex := first_attr (fun a => match a with AExpires y m d => Some (days_from_civil y m d * 86400) | _ => None end) at_ in
      Some (L [enc_str (g_name r); A sal; sxB nl; sxB lk; enc_ostr ag; enc_ostr ac; enc_oZ ef; enc_oZ ex;
               enc_group g; L (map exp_action (g_acts r))])
  end.

(** ---------- model of the condition-tree parser on text ---------- *)
(** is_balanced_parentheses (parentheses inside a string literal are text) *)
Fixpoint balanced_q (s : str) (n : Z) (quote : option Z) : bool :=
  match s with
  | [] => n =? 0
  | c :: r =>
      match quote with
      | Some q => balanced_q r n (if c =? q then None else quote)
      | None => if (c =? 34) || (c =? 39) then balanced_q r n (Some c)
                else if c =? 40 then balanced_q r (n + 1) None
                else if c =? 41 then (if n - 1 <? 0 then false else balanced_q r (n - 1) None)
                else balanced_q r n None
      end
  end.
Definition balanced (s : str) (n : Z) : bool := balanced_q s n None.

(** split_logical_operator (after repair: characters inside a string literal are never separators):
    [op] = 38 for && , 124 for ||.  Returns the trimmed parts; fewer than two parts = no split. *)
Fixpoint split_logical (op : Z) (s : str) (depth : Z) (quote : option Z) (cur : str) (skip : bool) : list str :=
  match s with
  | [] => let t := trim ws_unicode (rev cur) in match t with [] => [] | _ => [t] end
  | c :: r =>
      if skip then split_logical op r depth quote cur false          (* the second character of && or || *)
      else
      match quote with
      | Some q => split_logical op r depth (if c =? q then None else quote) (c :: cur) false
      | None =>
          if (c =? 34) || (c =? 39) then split_logical op r depth (Some c) (c :: cur) false
          else if c =? 40 then split_logical op r (depth + 1) quote (c :: cur) false
          else if c =? 41 then split_logical op r (depth - 1) quote (c :: cur) false
          else if (c =? op) && (depth =? 0) && match r with d :: _ => d =? op | [] => false end then
            trim ws_unicode (rev cur) :: split_logical op r depth quote [] true
          else split_logical op r depth quote (c :: cur) false
      end
  end.
Definition split_on (op : Z) (s : str) : option (list str) :=
  let parts := split_logical op s 0 None [] false in
  if (2 <=? Z.of_nat (length parts)) then Some parts else None.

(** the result of the condition parser on a typed-core text: a tree whose leaves are the texts of the
    single comparisons (the regular expression that splits a comparison is applied to each leaf) *)
Inductive ptree := PLeaf (s : str) | PAnd (a b : ptree) | POr (a b : ptree) | PNot (a : ptree).

Fixpoint fold_left1 (f : ptree -> ptree -> ptree) (l : list ptree) (d : ptree) : ptree :=
  match l with [] => d | x :: r => fold_left f r x end.

(** every redundant pair of outer parentheses is removed (repair 3 of C04) *)
Fixpoint strip_outer (fuel : nat) (t : str) : str :=
  match fuel with
  | O => t
  | S fu => if first_is t 40 && last_is t 41 && balanced (strip_ends t) 0 then strip_outer fu (trim ws_unicode (strip_ends t)) else t
  end.

Fixpoint parse_when (fuel : nat) (s : str) : ptree :=
  match fuel with
  | O => PLeaf s
  | S fu =>
      let t := trim ws_unicode s in
      let clause := strip_outer (length t) t in
      match split_on 124 clause with
      | Some parts => fold_left1 POr (map (parse_when fu) parts) (PLeaf clause)
      | None =>
          match split_on 38 clause with
          | Some parts => fold_left1 PAnd (map (parse_when fu) parts) (PLeaf clause)
          | None =>
              let c := trim_start ws_unicode clause in
              if first_is c 33 then PNot (parse_when fu (trim ws_unicode (tl c)))
              else
                (* parse_single_condition: one more pair of outer parentheses is dropped - a pair that matches each other (repair) *)
                let c1 := trim ws_unicode clause in
                PLeaf (if first_is c1 40 && last_is c1 41 && balanced (strip_ends c1) 0 then trim ws_unicode (strip_ends c1) else c1)
          end
      end
  end.
Definition parse_when_text (s : str) : ptree := parse_when (S (length s)) s.

Fixpoint enc_ptree (t : ptree) : sx :=
  match t with
  | PLeaf s => L [A 0; enc_str s]
  | PAnd a b => L [A 1; enc_ptree a; enc_ptree b]
  | POr a b => L [A 2; enc_ptree a; enc_ptree b]
  | PNot a => L [A 3; enc_ptree a]
  end.

(** ---------- printed trees and neutral texts (used by the theorems) ---------- *)
(** [inert t]: scanning t (from outside any string literal, at any depth >= 0) only copies it: no split,
    same depth afterwards, outside any string literal afterwards *)
Definition inert (op : Z) (t : str) : Prop :=
  forall rest depth cur, 0 <= depth ->
    split_logical op (t ++ rest) depth None cur false = split_logical op rest depth None (rev t ++ cur) false.

(** [inert_in t]: the same, but only required at depth >= 1 (t may contain && or || at its own top level) *)
Definition inert_in (op : Z) (t : str) : Prop :=
  forall rest depth cur, 1 <= depth ->
    split_logical op (t ++ rest) depth None cur false = split_logical op rest depth None (rev t ++ cur) false.


Definition gcompound (g : gcond) : bool := match g with GAnd2 _ _ | GOr2 _ _ => true | _ => false end.
Fixpoint pr_g (g : gcond) : str :=
  match g with
  | GC c => pr_cond c
  | GParen a => 40 :: pr_g a ++ [41]
  | GAnd2 a b => (if gcompound a then 40 :: pr_g a ++ [41] else pr_g a) ++ [32; 38; 38; 32] ++ (if gcompound b then 40 :: pr_g b ++ [41] else pr_g b)
  | GOr2 a b => (if gcompound a then 40 :: pr_g a ++ [41] else pr_g a) ++ [32; 124; 124; 32] ++ (if gcompound b then 40 :: pr_g b ++ [41] else pr_g b)
  | GNot2 a => 33 :: 40 :: pr_g a ++ [41]
  end.
Fixpoint skel (g : gcond) : ptree :=
  match g with
  | GC c => PLeaf (pr_cond c)
  | GParen a => skel a
  | GAnd2 a b => PAnd (skel a) (skel b)
  | GOr2 a b => POr (skel a) (skel b)
  | GNot2 a => PNot (skel a)
  end.

(** what a leaf text must be like: not blank at either end, not starting with ( or !, and neutral for the
    splitter and for the parenthesis counter (it copies through both, at any depth) *)
Definition bal_inert (t : str) : Prop :=
  forall rest n, 0 <= n -> balanced_q (t ++ rest) n None = balanced_q rest n None.
Record leaf_ok (t : str) : Prop := {
  lf_first : exists c r, t = c :: r /\ ws_unicode c = false /\ (c =? 40) = false /\ (c =? 33) = false;
  lf_last : exists c r, rev t = c :: r /\ ws_unicode c = false;
  lf_and : inert 38 t;
  lf_or : inert 124 t;
  lf_bal : bal_inert t }.

Fixpoint wf_g (g : gcond) : Prop :=
  match g with
  | GC c => leaf_ok (pr_cond c)
  | GParen a | GNot2 a => wf_g a
  | GAnd2 a b | GOr2 a b => wf_g a /\ wf_g b
  end.


(** ---------- model of the single-comparison regular expression on typed-core leaves ----------
    condition_regex:  path ( ws* [+-*/%] ws* [a-zA-Z0-9_.]+ )*  ws*  (>=|<=|==|!=|>|<|contains|startsWith|endsWith|matches|in)  ws*  (.+)
    matched at the start of the leaf (greedy, no backtracking needed on the typed core); None = no prediction *)
Definition is_ident_start (c : Z) : bool := is_alpha c || (c =? 95).
Definition is_ident_char (c : Z) : bool := is_alnum c || (c =? 95).
Definition is_operand_char (c : Z) : bool := is_alnum c || (c =? 95) || (c =? 46).
Definition is_ws_ascii (c : Z) : bool := (c =? 32) || ((9 <=? c) && (c <=? 13)).

Fixpoint take_while (p : Z -> bool) (s : str) : str * str :=
  match s with c :: r => if p c then let '(a, b) := take_while p r in (c :: a, b) else ([], s) | [] => ([], []) end.

Fixpoint scan_path (fuel : nat) (s : str) : option (str * str) :=
  match fuel, s with
  | S fu, c :: _ =>
      if is_ident_start c then
        let '(id, r) := take_while is_ident_char s in
        match r with
        | 46 :: (d :: _) as r' => if is_ident_start d then
                                     match scan_path fu r' with Some (more, rest) => Some (id ++ 46 :: more, rest) | None => Some (id, r) end
                                   else Some (id, r)
        | _ => Some (id, r)
        end
      else None
  | _, _ => None
  end.

Fixpoint scan_operands (fuel : nat) (acc : str) (s : str) : str * str :=
  match fuel with
  | O => (acc, s)
  | S fu =>
      let '(w1, r1) := take_while is_ws_ascii s in
      match r1 with
      | c :: r2 => if memc c [43; 45; 42; 47; 37] then
                     let '(w2, r3) := take_while is_ws_ascii r2 in
                     let '(opd, r4) := take_while is_operand_char r3 in
                     match opd with [] => (acc, s) | _ => scan_operands fu (acc ++ w1 ++ [c] ++ w2 ++ opd) r4 end
                   else (acc, s)
      | [] => (acc, s)
      end
  end.

Definition op_table : list (str * oper) :=
  [([62; 61], OGe); ([60; 61], OLe); ([61; 61], OEq); ([33; 61], ONe); ([62], OGt); ([60], OLt);
   (op_str OContains, OContains); (op_str OStartsWith, OStartsWith); (op_str OEndsWith, OEndsWith); (op_str OMatches, OMatches); (op_str OIn, OIn)].
Fixpoint match_op (s : str) (t : list (str * oper)) : option (str * oper * str) :=
  match t with
  | [] => None
  | (p, o) :: r => if str_starts s p then Some (p, o, skipn (length p) s) else match_op s r
  end.

(** split_arithmetic_comparison (repair of the parser): the first symbolic comparison operator outside string literals and parentheses *)
Definition sym_ops : list (str * oper) := firstn 6 op_table.
Fixpoint split_cmp (s : str) (q : option Z) (depth : Z) (acc : str) : option (str * str * str) :=
  match s with
  | [] => None
  | c :: r =>
      match q with
      | Some x => split_cmp r (if c =? x then None else q) depth (c :: acc)
      | None =>
          if (c =? 34) || (c =? 39) then split_cmp r (Some c) depth (c :: acc)
          else if c =? 40 then split_cmp r None (depth + 1) (c :: acc)
          else if c =? 41 then split_cmp r None (depth - 1) (c :: acc)
          else if depth =? 0 then
                 match match_op s sym_ops with
                 | Some (ptxt, _, rest) => Some (rev acc, ptxt, rest)
                 | None => split_cmp r None depth (c :: acc)
                 end
               else split_cmp r None depth (c :: acc)
      end
  end.
(** an arithmetic left-hand side with parentheses, or one that does not start with a field: a test condition over the whole text *)
Definition wide_test (leaf : str) : option condition :=
  match split_cmp leaf None 0 [] with
  | Some (l, ptxt, r) =>
      let lhs := trim ws_unicode l in let rhs := trim ws_unicode r in
      match lhs, rhs with
      | [], _ | _, [] => None
      | _, _ => if has_arith_char lhs && (memc 40 lhs || negb (starts_with_field lhs))
                then Some {| c_expr := CTest (lhs ++ [32] ++ ptxt ++ [32] ++ rhs); c_op := OEq; c_val := VBool true |}
                else None
      end
  | None => None
  end.

Definition single_of_text_regex (leaf : str) : option condition :=
  match scan_path (S (length leaf)) leaf with
  | None => None
  | Some (path, r0) =>
      let '(lhs, r1) := scan_operands (length leaf) path r0 in
      let '(_, r2) := take_while is_ws_ascii r1 in
      match match_op r2 op_table with
      | None => None
      | Some (ptxt, o, r3) =>
          let v := trim ws_unicode r3 in
          match v with
          | [] => None
          | _ => if has_arith lhs
                 then Some {| c_expr := CTest (lhs ++ [32] ++ ptxt ++ [32] ++ v); c_op := OEq; c_val := VBool true |}
                 else Some {| c_expr := CField lhs; c_op := o; c_val := parse_val v |}
          end
      end
  end.

Definition single_of_text (leaf : str) : option condition :=
  match wide_test leaf with Some c => Some c | None => single_of_text_regex leaf end.

Fixpoint group_of_ptree (t : ptree) : option cgroup :=
  match t with
  | PLeaf s => match single_of_text s with Some c => Some (GSingle c) | None => None end
  | PAnd a b => match group_of_ptree a, group_of_ptree b with Some x, Some y => Some (GAnd x y) | _, _ => None end
  | POr a b => match group_of_ptree a, group_of_ptree b with Some x, Some y => Some (GOr x y) | _, _ => None end
  | PNot a => match group_of_ptree a with Some x => Some (GNot x) | None => None end
  end.

(** ---------- wire format ---------- *)
Definition dec_attr (s : sx) : option attr :=
  match s with
  | L [A 0; A z] => Some (ASal z)
  | L [A 1; _] => Some ANoLoop
  | L [A 2; _] => Some ALock
  | L [A 3; g] => match getZs g with Some g => Some (AAgenda g) | None => None end
  | L [A 4; g] => match getZs g with Some g => Some (AActivation g) | None => None end
  | L [A 5; A y; A m; A d] => Some (AEffective y m d)
  | L [A 6; A y; A m; A d] => Some (AExpires y m d)
  | _ => None end.

Definition dec_path (s : sx) : option (list str) := match s with L p => mapO getZs p | _ => None end.

Definition dec_action (s : sx) : option action :=
  match s with
  | L [A 0; p; e] => match dec_path p, dec_aexp e with Some p, Some e => Some (KSet p e) | _, _ => None end
  | L [A 1; p; e] => match dec_path p, dec_aexp e with Some p, Some e => Some (KAppend p e) | _, _ => None end
  | L [A 2; m] => match getZs m with Some m => Some (KLog m) | None => None end
  | L [A 3; m] => match getZs m with Some m => Some (KRetract m) | None => None end
  | L [A 4; m] => match getZs m with Some m => Some (KActivate m) | None => None end
  | L [A 5; A ms; m] => match getZs m with Some m => Some (KSchedule ms m) | None => None end
  | L [A 6; m] => match getZs m with Some m => Some (KComplete m) | None => None end
  | L [A 8; n; L args] => match getZs n, mapO dec_lit args with Some n, Some a => Some (KCustom n a) | _, _ => None end
  | L [A 9; o; m; L args] => match getZs o, getZs m, mapO dec_lit args with Some o, Some m, Some a => Some (KMethod o m a) | _, _, _ => None end
  | _ => None end.

Fixpoint dec_gcond (s : sx) : option gcond :=
  match s with
  | L [A 0; _; _; _] => match dec_cond s with Some c => Some (GC c) | None => None end
  | L [A 1; a; b] => match dec_gcond a, dec_gcond b with Some a, Some b => Some (GAnd2 a b) | _, _ => None end
  | L [A 2; a; b] => match dec_gcond a, dec_gcond b with Some a, Some b => Some (GOr2 a b) | _, _ => None end
  | L [A 3; a] => match dec_gcond a with Some a => Some (GNot2 a) | None => None end
  | L [A 4; a] => match dec_gcond a with Some a => Some (GParen a) | None => None end
  | _ => None end.

(** rule = (name-kind name description layout attrs cond actions): kind, description and layout only
    steer the printer and do not influence what is expected *)
Definition dec_grule (s : sx) : option grule :=
  match s with
  | L [_; n; _; _; L attrs; c; L acts] =>
      match getZs n, mapO dec_attr attrs, dec_gcond c, mapO dec_action acts with
      | Some n, Some at_, Some c, Some acts => Some {| g_name := n; g_attrs := at_; g_cond := c; g_acts := acts |}
      | _, _, _, _ => None end
  | _ => None end.

(** case = (0 (rule ...) features) : a rule file; (1 text tree) : a when clause (the printed text of the tree, with
    arbitrary blanks and redundant parentheses) for the condition parser *)
Definition run_sx (c : sx) : sx :=
  match c with
  | L [A 0; L _; _] => L [A (-998)]
  | L [A 1; t; _] => match getZs t with
                     | Some t => match group_of_ptree (parse_when_text t) with Some g => L [A 1; enc_group g] | None => L [A 2] end
                     | None => sx_bad end
  | _ => sx_bad end.

(** the constructs the regular-expression front end is known not to support (known findings):
    class 2: a closing brace inside a string literal (rule_split_regex ends a rule at the first '}');
    (class 3, blank-then-blank inside a string literal of the when clause, was repaired: the body is split at the `then` outside literals)
    (class 4, a comment containing a closing brace or a rule header, was repaired: comments are removed before the file is split into rules;
     files with such comments - feature 4 of the generator - must now parse exactly)
    class 6: an opening brace inside the description string of a rule header (rule_regex takes the attributes from `[^{]*`, the
             text up to the first opening brace): the attributes after the description are lost;
    class 5: a method-call action `$Object.method(args)` comes back as the custom action `method(args)` - the object is
             lost (method_call_regex starts with `\$`, which the regex engine never matches); recognised by the observation
             being EXACTLY the expectation with every method call replaced by that custom action *)
Fixpoint lit_strs (l : lit) : list str :=
  match l with
  | LStr s => [s]
  | LArr ls => (fix go (ls : list lit) : list str := match ls with [] => [] | x :: r => lit_strs x ++ go r end) ls
  | _ => [] end.
Fixpoint aexp_strs (e : aexp) : list str :=
  match e with ALit l => lit_strs l | ABin _ a b => aexp_strs a ++ aexp_strs b | APar a => aexp_strs a | AField _ => [] end.
Fixpoint scond_strs (c : scond) : list str :=
  match c with
  | SCmp l _ r => aexp_strs l ++ aexp_strs r
  | SAnd a b | SOr a b => scond_strs a ++ scond_strs b
  | SNot a => scond_strs a end.
Definition action_strs (a : action) : list str :=
  match a with
  | KSet _ e | KAppend _ e => aexp_strs e
  | KLog m => [m] | KRetract o => [o] | KActivate g => [g] | KSchedule _ r => [r] | KComplete w => [w]
  | KCustom _ args | KMethod _ _ args => flat_map lit_strs args
  end.
Definition attr_strs (a : attr) : list str := match a with AAgenda s | AActivation s => [s] | _ => [] end.
Definition rule_strs (r : grule) : list str :=
  g_name r :: flat_map attr_strs (g_attrs r) ++ scond_strs (strip (g_cond r)) ++ flat_map action_strs (g_acts r).

Definition s_then : str := [116; 104; 101; 110].
Fixpoint has_then (s : str) : bool :=
  match s with
  | [] => false
  | c :: r => (ws_unicode c && str_starts r s_then && match skipn 4 r with d :: _ => ws_unicode d | [] => false end) || has_then r
  end.

Definition descr_of (s : sx) : list str :=
  match s with L (_ :: _ :: L [d] :: _) => match getZs d with Some x => [x] | None => [] end | _ => [] end.

(* classes 2 (a closing brace inside a string literal) and 6 (an opening brace inside a description string) were repaired as well: a rule
   block ends at the first `}` OUTSIDE string literals and the attributes end at the first `{` outside string literals; no text of the
   grammar is excused any more, except the method-call form (class 5, decided in [ok_sx]) *)
Definition file_class (grs : list grule) (descs : list str) (feats : list sx) : Z := 0.

(** verdict for a rule file: 1 = the parsed rules are exactly those written, in order; otherwise the number
    of the known-finding class the file belongs to, or 0 (violation) when it belongs to none *)
Definition demethod (a : action) : action := match a with KMethod _ m args => KCustom m args | _ => a end.
Definition demethod_rule (r : grule) : grule :=
  {| g_name := g_name r; g_attrs := g_attrs r; g_cond := g_cond r; g_acts := map demethod (g_acts r) |}.
Definition has_method (r : grule) : bool := existsb (fun a => match a with KMethod _ _ _ => true | _ => false end) (g_acts r).

Definition ok_sx (c o : sx) : Z :=
  match c with
  | L [A 0; L rs; L feats] =>
      match mapO dec_grule rs with
      | Some grs =>
          (* a rule without a name is not a text of the grammar (such cases only arise when a failing case is being shrunk) *)
          if existsb (fun r => match g_name r with [] => true | _ => false end) grs then -1 else
          match mapO exp_rule grs with
          | Some es => if sx_eqb o (L [A 0; L es]) then 1
                       else if existsb has_method grs
                               && match mapO exp_rule (map demethod_rule grs) with Some es' => sx_eqb o (L [A 0; L es']) | None => false end
                            then 5
                            else file_class grs (flat_map descr_of rs) feats
          | None => -1 end
      | None => -1 end
  | L [A 1; _; g] => match dec_gcond g with
                     | Some g => match compile_cond (strip g) with
                                 | Some cg => if sx_eqb o (L [A 1; enc_group cg]) then 1 else 0
                                 | None => 0 end
                     | None => 0 end
  | _ => 0 end.
