(** C15 — lock-level concurrent model of src/engine/knowledge_base.rs.   Definitions only.

    The knowledge base is three cells (0 rules, 1 rule_index, 2 version), each behind a std::sync::RwLock.
    A thread executes a method as a sequence of atomic micro-steps:
      invoke; acquire each lock of the method's acquisition list, in program order (blocking while another thread holds
      the lock in a conflicting mode); compute (read the cells, run the sequential method body [KB.step] on them, keep
      the result and the new cell values in thread-local storage); write back, ONE CELL PER STEP, every cell whose write
      lock is held; release the guards one per step in reverse acquisition order (Rust's drop order); respond.
    Between two micro-steps of one thread any number of micro-steps of other threads may happen, so a thread that does
    not hold the right locks can observe a half-written knowledge base (new rules, old index): whether that can falsify
    an answer is exactly what the locking discipline decides.  The acquisition lists are parameters here; the instance
    [src_locks] is read from the current source by tools/consts.py (Generated/Consts.v kb_lock_modes).

    Modelling step (trusted): within the region in which a thread holds a guard, its own reads and writes of that cell
    are normalised to "read everything at the compute step, write everything afterwards" - no other thread can tell
    the difference, because the guard excludes it.  Rust's type system guarantees that a cell is only reached through
    its guard.  Lock semantics: a write lock excludes every other holder, read locks share; fairness / writer
    preference of the platform lock is not modelled (safety does not depend on it; progress is proved for the
    permissive semantics). *)
From RRE Require Import Base.Sx Model.KB Generated.Consts.
Open Scope Z_scope.

Inductive mode := MR | MW.
Definition lockreq := (nat * mode)%type.
Definition mode_eqb (a b : mode) : bool := match a, b with MR, MR => true | MW, MW => true | _, _ => false end.

Record lockst := { wr : option nat; rd : list nat }.
Definition lfree : lockst := {| wr := None; rd := [] |}.

Definition can_acq (m : mode) (l : lockst) : bool :=
  match m with
  | MW => match wr l, rd l with None, [] => true | _, _ => false end
  | MR => match wr l with None => true | Some _ => false end
  end.
Definition do_acq (t : nat) (m : mode) (l : lockst) : lockst :=
  match m with MW => {| wr := Some t; rd := rd l |} | MR => {| wr := wr l; rd := t :: rd l |} end.
Fixpoint remove1 (t : nat) (l : list nat) : list nat :=
  match l with [] => [] | x :: r => if Nat.eqb x t then r else x :: remove1 t r end.
Definition do_rel (t : nat) (m : mode) (l : lockst) : lockst :=
  match m with MW => {| wr := None; rd := rd l |} | MR => {| wr := wr l; rd := remove1 t (rd l) |} end.

Definition upd {T} (f : nat -> T) (i : nat) (v : T) : nat -> T := fun x => if Nat.eqb x i then v else f x.

(** cells *)
Definition write_cell (c : nat) (src dst : kb) : kb :=
  match c with
  | 0%nat => {| rules := rules src; index := index dst; version := version dst |}
  | 1%nat => {| rules := rules dst; index := index src; version := version dst |}
  | 2%nat => {| rules := rules dst; index := index dst; version := version src |}
  | _ => dst
  end.
Definition agree (c : nat) (a b : kb) : Prop :=
  match c with 0%nat => rules a = rules b | 1%nat => index a = index b | 2%nat => version a = version b | _ => True end.

(** which cells the sequential body of an operation reads, and which it may change *)
Definition footprint (o : op) : list nat :=
  match o with
  | Add _ _ _ | Remove _ | Enable _ _ => [0; 1; 2]%nat
  | Clear => [2]%nat
  | Get _ => [0; 1]%nat
  | Version => [2]%nat
  | Listing => [0]%nat
  end.
Definition wset (o : op) : list nat :=
  match o with
  | Add _ _ _ | Remove _ | Clear => [0; 1; 2]%nat
  | Enable _ _ => [0; 2]%nat
  | Get _ | Version | Listing => []
  end.

(** thread-local control state *)
Inductive pc :=
| PIdle
| PAcq (o : op) (inv : Z) (todo held : list lockreq)
| PWrite (o : op) (inv lin : Z) (r : res) (loc : kb) (todo : list nat) (held : list lockreq)
| PRel (o : op) (inv lin : Z) (r : res) (held : list lockreq).
Record thread := { prog : list op; tpc : pc }.

Record hev := { h_op : op; h_res : res; h_inv : Z; h_lin : Z; h_resp : Z }.

Record gst := {
  cells : kb;                       (* the three shared cells *)
  sigma : kb;                       (* ghost: the abstract state, advanced at each compute step *)
  lk : nat -> lockst;
  thr : list thread;
  now : Z;                          (* one tick per micro-step: the global real-time clock *)
  linlog : list (op * res * Z);     (* ghost: (operation, result of the abstract state, instant) per compute step *)
  hist : list hev                   (* completed operations with the result the thread actually returned *)
}.

Fixpoint set_nth {T} (n : nat) (x : T) (l : list T) : list T :=
  match n, l with
  | _, [] => []
  | O, _ :: r => x :: r
  | S k, y :: r => y :: set_nth k x r
  end.

Definition wlocks (held : list lockreq) : list nat :=
  map fst (filter (fun q => mode_eqb (snd q) MW) held).

Section Conc.
Variable locks_of : op -> list lockreq.

Definition cstep (t : nat) (s : gst) : option gst :=
  match nth_error (thr s) t with
  | None => None
  | Some th =>
    let put (p : pc) := set_nth t {| prog := prog th; tpc := p |} (thr s) in
    match tpc th with
    | PIdle =>
        match prog th with
        | [] => None
        | o :: rest =>
            Some {| cells := cells s; sigma := sigma s; lk := lk s;
                    thr := set_nth t {| prog := rest; tpc := PAcq o (now s) (locks_of o) [] |} (thr s);
                    now := now s + 1; linlog := linlog s; hist := hist s |}
        end
    | PAcq o inv ((l, m) :: todo) held =>
        if can_acq m (lk s l)
        then Some {| cells := cells s; sigma := sigma s; lk := upd (lk s) l (do_acq t m (lk s l));
                     thr := put (PAcq o inv todo ((l, m) :: held));
                     now := now s + 1; linlog := linlog s; hist := hist s |}
        else None
    | PAcq o inv [] held =>
        let kr := step (cells s) o in
        let ks := step (sigma s) o in
        Some {| cells := cells s; sigma := fst ks; lk := lk s;
                thr := put (PWrite o inv (now s) (snd kr) (fst kr) (wlocks held) held);
                now := now s + 1; linlog := linlog s ++ [(o, snd ks, now s)]; hist := hist s |}
    | PWrite o inv lin r loc (c :: todo) held =>
        Some {| cells := write_cell c loc (cells s); sigma := sigma s; lk := lk s;
                thr := put (PWrite o inv lin r loc todo held);
                now := now s + 1; linlog := linlog s; hist := hist s |}
    | PWrite o inv lin r loc [] held =>
        Some {| cells := cells s; sigma := sigma s; lk := lk s;
                thr := put (PRel o inv lin r held);
                now := now s + 1; linlog := linlog s; hist := hist s |}
    | PRel o inv lin r ((l, m) :: held) =>
        Some {| cells := cells s; sigma := sigma s; lk := upd (lk s) l (do_rel t m (lk s l));
                thr := put (PRel o inv lin r held);
                now := now s + 1; linlog := linlog s; hist := hist s |}
    | PRel o inv lin r [] =>
        Some {| cells := cells s; sigma := sigma s; lk := lk s;
                thr := put PIdle;
                now := now s + 1; linlog := linlog s;
                hist := hist s ++ [{| h_op := o; h_res := r; h_inv := inv; h_lin := lin; h_resp := now s |}] |}
    end
  end.

(** a schedule is a list of thread numbers; a thread that cannot move (blocked, finished, absent) is skipped *)
Fixpoint run (sched : list nat) (s : gst) : gst :=
  match sched with
  | [] => s
  | t :: r => match cstep t s with Some s' => run r s' | None => run r s end
  end.

Definition ginit (progs : list (list op)) : gst :=
  {| cells := init; sigma := init; lk := fun _ => lfree;
     thr := map (fun p => {| prog := p; tpc := PIdle |}) progs;
     now := 0; linlog := []; hist := [] |}.

Definition quiescent (s : gst) : Prop := forall t th, nth_error (thr s) t = Some th -> tpc th = PIdle.
Definition finished (s : gst) : Prop := forall t th, nth_error (thr s) t = Some th -> tpc th = PIdle /\ prog th = [].
End Conc.

(** the acquisition lists of the current source (Generated/Consts.v) *)
Definition op_kind (o : op) : nat :=
  match o with Add _ _ _ => 0 | Remove _ => 1 | Enable _ _ => 2 | Clear => 3 | Get _ => 4 | Version => 5 | Listing => 6 end%nat.
Definition src_locks (o : op) : list lockreq :=
  map (fun q : N * bool => (N.to_nat (fst q), if snd q then MW else MR)) (nth (op_kind o) kb_lock_modes []).

(** what the theorems need of an acquisition table (decidable; checked on [src_locks] by computation):
    strictly ascending lock numbers below 3 (one global order, no lock taken twice), every cell the body reads is locked,
    every cell the body may change is write-locked *)
Fixpoint ascending_from (lo : nat) (l : list lockreq) : bool :=
  match l with [] => true | (c, _) :: r => Nat.leb lo c && Nat.ltb c 3 && ascending_from (S c) r end.
Definition covers (ls : list lockreq) (o : op) : bool :=
  forallb (fun c => existsb (fun q => Nat.eqb (fst q) c) ls) (footprint o)
  && forallb (fun c => existsb (fun q => Nat.eqb (fst q) c && mode_eqb (snd q) MW) ls) (wset o).
Definition kind_reps : list op := [Add 0 0 0; Remove 0; Enable 0 true; Clear; Get 0; Version; Listing].
Definition table_ok (locks_of : op -> list lockreq) : bool :=
  forallb (fun o => ascending_from 0 (locks_of o) && covers (locks_of o) o) kind_reps.

(** a deliberately wrong table for the non-vacuity example: get_rule takes no guard at all *)
Definition bad_locks (o : op) : list lockreq :=
  match o with Get _ => [] | _ => src_locks o end.

Definition to_cevent (h : hev) : cevent :=
  {| c_op := h_op h; c_res := enc_res (h_res h); c_inv := h_inv h; c_resp := h_resp h |}.
