(** C05 — the slicing skeleton of src/expression.rs (evaluate_expression / find_operator), after the
    repairs 32df0c7 (byte offsets from char_indices), aee5bb9 (quotes tested before slicing), e2ff44b
    (parenthesised sub-expressions), 037343a (signs) and 20bd893 (operators inside string literals), on
    strings as lists of Unicode scalar values with UTF-8 byte offsets.  Definitions only.

    Rust items modelled:
      expression.rs::find_operator ; evaluate_expression: trim, the three slices around the operator,
      the string-literal test and its slice, the leaf lookup on an EMPTY fact store, left-before-right
      evaluation with `?` (the first failing leaf is reported)
    A Rust `&str` slice `s[a..b]` panics unless a <= b <= len and both are character boundaries:
    [slice] returns None in exactly those cases.  The model threads byte offsets exactly like the code,
    so that "no panic" is a theorem and not a consequence of using lists.
    Leaves: with an empty fact store a leaf that is neither a quoted string nor a number is reported
    as `Field '<leaf>' not found`.  Number recognition (str::parse::<i64>/<f64>) is a parameter
    [is_num]; the harness only predicts outcomes on an alphabet where no leaf is a number. *)
From RRE Require Import Base.Sx.
Open Scope Z_scope.

Definition str := list Z.

Definition utf8_len (c : Z) : Z := if c <? 128 then 1 else if c <? 2048 then 2 else if c <? 65536 then 3 else 4.
Fixpoint blen (s : str) : Z := match s with [] => 0 | c :: r => utf8_len c + blen r end.

(** s[..n] and s[n..] at byte offset n; None when n is not a character boundary or out of range *)
Fixpoint split_at (s : str) (n : Z) : option (str * str) :=
  if n =? 0 then Some ([], s)
  else match s with
       | [] => None
       | c :: r => if n <? utf8_len c then None
                   else match split_at r (n - utf8_len c) with Some (a, b) => Some (c :: a, b) | None => None end
       end.

(** s[a..b] *)
Definition slice (s : str) (a b : Z) : option str :=
  if b <? a then None
  else match split_at s b with
       | Some (pre, _) => match split_at pre a with Some (_, mid) => Some mid | None => None end
       | None => None
       end.

Section Shape.
Variable ws : Z -> bool.          (* char::is_whitespace *)
Variable is_num : str -> bool.    (* the leaf parses as i64 or f64 *)

Fixpoint trim_start (s : str) : str := match s with c :: r => if ws c then trim_start r else s | [] => [] end.
Definition trim (s : str) : str := rev (trim_start (rev (trim_start s))).

Definition memc (c : Z) (ops : list Z) : bool := existsb (Z.eqb c) ops.

(** find_operator: byte offset of the rightmost operator character at parenthesis depth 0 that is
    outside string literals and is not a sign (a + or - at the start or directly after another operator);
    [prev] = previous non-whitespace character, [quote] = the quote character of the literal being skipped *)
Definition is_arith (c : Z) : bool := memc c [43; 45; 42; 47; 37].
Fixpoint find_op (ops : list Z) (s : str) (off depth : Z) (prev quote last : option Z) : option Z :=
  match s with
  | [] => last
  | c :: r =>
      let off' := off + utf8_len c in
      match quote with
      | Some q => find_op ops r off' depth (Some c) (if c =? q then None else quote) last
      | None =>
          let prev' := if ws c then prev else Some c in
          if (c =? 34) || (c =? 39) then find_op ops r off' depth prev' (Some c) last
          else if c =? 40 then find_op ops r off' (depth + 1) prev' None last
          else if c =? 41 then find_op ops r off' (depth - 1) prev' None last
          else if (depth =? 0) && memc c ops then
            let is_sign := ((c =? 43) || (c =? 45)) && match prev with None => true | Some p => is_arith p end in
            find_op ops r off' depth prev' None (if is_sign then last else Some off)
          else find_op ops r off' depth prev' None last
      end
  end.
Definition find_operator (ops : list Z) (e : str) : option Z := find_op ops e 0 0 None None None.

Definition plus_minus : list Z := [43; 45].
Definition mul_div_mod : list Z := [42; 47; 37].

Inductive res :=
| RPanic                       (* a slice off a character boundary / out of range *)
| ROutOfFuel
| RValue                       (* Ok(_) *)
| RErrField (leaf : str)       (* Err: Field '<leaf>' not found in facts *)
| RErrOther.                   (* any other Err (arithmetic on non-numbers, division by zero, ...) *)

Definition enclosed (s : str) (a b : Z) : bool :=
  match s, rev s with c :: _, d :: _ => (c =? a) && (d =? b) | _, _ => false end.
Definition quoted (s : str) (q : Z) : bool := enclosed s q q.

(** the leaf case: string literal test (with its slice), number, field lookup on empty facts *)
Definition leaf (e : str) : res :=
  let dq := quoted e 34 in let sq := quoted e 39 in
  if (2 <=? blen e) && (dq || sq) then
    match slice e 1 (blen e - 1) with
    | None => RPanic
    | Some inner =>
        if (dq && negb (memc 34 inner)) || (sq && negb (memc 39 inner)) then RValue
        else if is_num e then RValue else RErrField e
    end
  else if is_num e then RValue else RErrField e.

Fixpoint shape (fuel : nat) (e0 : str) : res :=
  match fuel with
  | O => ROutOfFuel
  | S f =>
      let e := trim e0 in
      let try_split (ops : list Z) (k : unit -> res) : res :=
        match find_operator ops e with
        | Some pos =>
            match slice e 0 pos, slice e pos (pos + 1), slice e (pos + 1) (blen e) with
            | Some l, Some _, Some r =>
                match shape f l with
                | RValue => match shape f r with RValue => RValue | x => x end
                | x => x
                end
            | _, _, _ => RPanic
            end
        | None => k tt
        end in
      try_split plus_minus (fun _ => try_split mul_div_mod (fun _ =>
        (* a parenthesised sub-expression: evaluate what is inside *)
        if (2 <=? blen e) && enclosed e 40 41 then
          match slice e 1 (blen e - 1) with Some inner => shape f inner | None => RPanic end
        else leaf e))
  end.

(** [RValue] for an operator node means "both operands evaluated"; whether the arithmetic then
    returns Ok or Err depends on the operand values, which this skeleton does not track.  The class
    of the outcome (returns / panics) does not depend on it. *)

Definition shape_of (s : str) : res := shape (S (length s)) s.

End Shape.

(** ------------------------------------------------------------------ *)
(** instance used by the harness on the identifier alphabet  a b x . é 💥 ( ) + - * / % space :
    plus inserted multi-byte characters, some of them Unicode whitespace; no leaf is a number *)
(** char::is_whitespace = the Unicode White_Space property *)
Definition ws_unicode (c : Z) : bool :=
  (c =? 32) || ((9 <=? c) && (c <=? 13)) || (c =? 133) || (c =? 160) || (c =? 5760)
  || ((8192 <=? c) && (c <=? 8202)) || (c =? 8232) || (c =? 8233) || (c =? 8239) || (c =? 8287) || (c =? 12288).
Definition shape_ident (s : str) : res := shape_of ws_unicode (fun _ => false) s.

(** does the text contain a non-ASCII character immediately followed by [kw]? (the signature of the
    known finding C05-rexile-multibyte-before-keyword) *)
Fixpoint starts_with (s p : str) : bool :=
  match p, s with [], _ => true | x :: p', y :: s' => (x =? y) && starts_with s' p' | _ :: _, [] => false end.
Fixpoint nonascii_before (kw : str) (s : str) : bool :=
  match s with
  | [] => false
  | c :: r => ((128 <=? c) && starts_with r kw) || nonascii_before kw r
  end.
Definition kw_rule : str := [114; 117; 108; 101].

(** wire: case = (entry (cp ...)); observation = (class (leaf?)) with class 0 Ok, 1 Err, 2 panic in the
    crate, 3 panic inside the rexile regex crate.  Entry 0 = evaluator on the identifier alphabet. *)
Definition enc_res (r : res) : sx :=
  match r with
  | RValue => L [A 0; L []]
  | RErrField l => L [A 1; L [L (map A l)]]
  | RErrOther => L [A 1; L []]
  | RPanic => L [A 2; L []]
  | ROutOfFuel => L [A 9; L []]
  end.

Definition run_sx (c : sx) : sx :=
  match c with
  | L [A 0; s] => match getZs s with Some s => enc_res (shape_ident s) | None => sx_bad end
  | L [A _; _] => L [A (-998)]
  | _ => sx_bad end.

(** verdict: 1 = returned a value or an error; 2 = the known rexile finding; 0 = panic / malformed *)
Definition ok_sx (c o : sx) : Z :=
  match c, o with
  | L [A 0; s], _ =>
      match getZs s with
      | Some s => (* the evaluator on the identifier alphabet: the model's exact prediction, except that an
                     operator node whose operands both evaluate may end in Ok or in an arithmetic Err *)
          match shape_ident s, o with
          | RValue, L [A cl; L []] => if (cl =? 0) || (cl =? 1) then 1 else 0
          | r, _ => if sx_eqb (enc_res r) o then (match r with RPanic | ROutOfFuel => 0 | _ => 1 end) else 0
          end
      | None => 0 end
  | L [A e; s], L [A cl; _] =>
      if (cl =? 0) || (cl =? 1) then 1
      else if (cl =? 3) && ((e =? 2) || (e =? 3))
           then match getZs s with Some s => if nonascii_before kw_rule s then 2 else 0 | None => 0 end
           else 0
  | _, _ => 0 end.
