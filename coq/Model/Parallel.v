(** C19 — model of src/engine/parallel.rs (ParallelRuleEngine::execute_parallel).
    Definitions only.

    Rust items modelled:
      parallel.rs::ParallelRuleEngine::{execute_parallel, group_rules_by_salience, should_parallelize,
           execute_rules_parallel (chunking, one thread per chunk, results appended under a mutex),
           execute_rules_sequential, evaluate_rule_conditions (Single/Compound/Not),
           evaluate_single_condition (Field vs integer literal; missing field => false)}
    The thread schedule is the ORDER in which the worker threads append their result vectors to
    the shared vector: an explicit argument (one list of chunk indices per salience level).
    Actions other than custom functions are no-ops in this engine and condition evaluation only
    reads the facts, so verdicts do not depend on the schedule (see [eval_rule]: a pure function). *)
From RRE Require Import Base.Sx.
Open Scope Z_scope.

Inductive cmp := CEq | CNe | CLt | CLe | CGt | CGe.
Inductive cond :=
| CAtom (f : Z) (c : cmp) (k : Z)
| CAnd (a b : cond) | COr (a b : cond) | CNot (a : cond).

Definition store := list (Z * Z).          (* present integer fields *)
Fixpoint sget (s : store) (f : Z) : option Z := match s with [] => None | (k, v) :: r => if k =? f then Some v else sget r f end.

Fixpoint eval (s : store) (c : cond) : bool :=
  match c with
  | CAtom f op k =>
      match sget s f with
      | None => false                          (* missing field: the condition is false, whatever the operator *)
      | Some x => match op with CEq => x =? k | CNe => negb (x =? k) | CLt => x <? k | CLe => x <=? k | CGt => k <? x | CGe => k <=? x end
      end
  | CAnd a b => eval s a && eval s b
  | COr a b => eval s a || eval s b
  | CNot a => negb (eval s a)
  end.

Record rule := { r_name : Z; r_sal : Z; r_enabled : bool; r_cond : cond }.
Record config := { c_enabled : bool; c_threads : nat; c_min : nat }.

Definition ctx := (Z * bool)%type.            (* rule name, fired *)
Definition eval_rule (s : store) (r : rule) : ctx := (r_name r, eval s (r_cond r)).

(** slice::chunks(n) *)
Fixpoint take {T} (n : nat) (l : list T) : list T := match n, l with S k, x :: r => x :: take k r | _, _ => [] end.
Fixpoint drop {T} (n : nat) (l : list T) : list T := match n, l with S k, _ :: r => drop k r | _, _ => l end.
Fixpoint chunks_fuel {T} (fuel n : nat) (l : list T) : list (list T) :=
  match fuel with
  | O => []
  | S f => match l with [] => [] | _ => take n l :: chunks_fuel f n (drop n l) end
  end.
Definition chunks {T} (n : nat) (l : list T) : list (list T) := chunks_fuel (length l) n l.

Definition div_ceil (a b : nat) : nat := Nat.div (a + b - 1) b.

(** group_rules_by_salience + levels in descending order; within a level the rule-vector order *)
Fixpoint insert_desc (x : Z) (l : list Z) : list Z :=
  match l with [] => [x] | y :: r => if y <? x then x :: l else if y =? x then l else y :: insert_desc x r end.
Definition levels (rs : list rule) : list Z := fold_left (fun a r => insert_desc (r_sal r) a) (filter r_enabled rs) [].
Definition at_level (rs : list rule) (sal : Z) : list rule := filter (fun r => r_enabled r && (r_sal r =? sal)) rs.

Definition should_parallelize (cfg : config) (n : nat) : bool :=
  c_enabled cfg && Nat.leb (c_min cfg) n && Nat.leb 2 n.

(** one level: [order] = the order in which the chunk threads append (indices into the chunk list) *)
Definition run_level (cfg : config) (s : store) (order : list nat) (rs : list rule) : list ctx :=
  if should_parallelize cfg (length rs) then
    let cs := chunks (div_ceil (length rs) (c_threads cfg)) rs in
    flat_map (fun i => map (eval_rule s) (nth i cs [])) order
  else map (eval_rule s) rs.

(** identity schedule of a level *)
Definition id_order (cfg : config) (rs : list rule) : list nat :=
  seq 0 (length (chunks (div_ceil (length rs) (c_threads cfg)) rs)).

Fixpoint run_levels (cfg : config) (s : store) (orders : list (list nat)) (rs : list rule) (lv : list Z) : list ctx :=
  match lv with
  | [] => []
  | sal :: rest =>
      let lr := at_level rs sal in
      match orders with
      | o :: os => run_level cfg s o lr ++ run_levels cfg s os rs rest
      | [] => run_level cfg s (id_order cfg lr) lr ++ run_levels cfg s [] rs rest
      end
  end.

Definition execute_parallel (cfg : config) (s : store) (orders : list (list nat)) (rs : list rule) : list ctx :=
  run_levels cfg s orders rs (levels rs).

(** the sequential reference: every enabled rule evaluated once on the same facts *)
Definition execute_seq (s : store) (rs : list rule) : list ctx := map (eval_rule s) (filter r_enabled rs).

Definition evaluated (l : list ctx) : Z := Z.of_nat (length l).
Definition fired (l : list ctx) : Z := Z.of_nat (length (filter snd l)).

(** ------------------------------------------------------------------ *)
(** wire: case = ((enabled threads min) ((k v) ...) ((name sal enabled cond) ...) repetitions)
    cond = (0 f cmp k) | (1 a b) | (2 a b) | (3 a)
    observation = ((evaluated fired ((name fired) ... sorted by name)) ... one per repetition) *)
Definition dec_cmp (s : sx) : option cmp :=
  match s with A 0 => Some CEq | A 1 => Some CNe | A 2 => Some CLt | A 3 => Some CLe | A 4 => Some CGt | A 5 => Some CGe | _ => None end.
Fixpoint dec_cond (fuel : nat) (s : sx) : option cond :=
  match fuel with
  | O => None
  | S f =>
      match s with
      | L [A 0; A fl; c; A k] => option_map (fun c => CAtom fl c k) (dec_cmp c)
      | L [A 1; a; b] => match dec_cond f a, dec_cond f b with Some a, Some b => Some (CAnd a b) | _, _ => None end
      | L [A 2; a; b] => match dec_cond f a, dec_cond f b with Some a, Some b => Some (COr a b) | _, _ => None end
      | L [A 3; a] => option_map CNot (dec_cond f a)
      | _ => None end
  end.
Definition dec_rule (s : sx) : option rule :=
  match s with
  | L [A n; A sal; en; c] => match getB en, dec_cond 12 c with
                             | Some en, Some c => Some {| r_name := n; r_sal := sal; r_enabled := en; r_cond := c |}
                             | _, _ => None end
  | _ => None end.
Definition dec_kv (s : sx) : option (Z * Z) := match s with L [A k; A v] => Some (k, v) | _ => None end.

Fixpoint ins_ctx (x : ctx) (l : list ctx) : list ctx :=
  match l with [] => [x] | y :: r => if fst x <=? fst y then x :: l else y :: ins_ctx x r end.
Definition sort_ctx (l : list ctx) : list ctx := fold_left (fun a x => ins_ctx x a) l [].
Definition enc_result (l : list ctx) : sx :=
  L [A (evaluated l); A (fired l); L (map (fun c => L [A (fst c); sxB (snd c)]) (sort_ctx l))].

Definition dec_case (c : sx) : option (config * store * list rule * nat) :=
  match c with
  | L [L [en; th; mn]; L kvs; L rs; reps] =>
      match getB en, getN th, getN mn, mapO dec_kv kvs, mapO dec_rule rs, getN reps with
      | Some en, Some th, Some mn, Some kvs, Some rs, Some reps =>
          Some ({| c_enabled := en; c_threads := N.to_nat th; c_min := N.to_nat mn |}, kvs, rs, N.to_nat reps)
      | _, _, _, _, _, _ => None end
  | _ => None end.

Definition run_sx (c : sx) : sx :=
  match dec_case c with
  | Some (cfg, s, rs, reps) => L (repeat (enc_result (execute_parallel cfg s [] rs)) reps)
  | None => sx_bad end.

(** monitor: every repetition reports the sequential verdicts and counts *)
Definition ok_sx (c o : sx) : bool :=
  match dec_case c, o with
  | Some (cfg, s, rs, reps), L os =>
      Nat.eqb (length os) reps && forallb (sx_eqb (enc_result (execute_seq s rs))) os
  | _, _ => false end.
