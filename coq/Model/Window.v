(** C12 — model of src/streaming/window.rs (TimeWindow::{add_event, record, aggregates},
    WindowManager::process_event) and src/streaming/operators.rs (WindowedStream::new, tumbling),
    after the repair "fix: sliding record evicts every event older than the window".
    Definitions only.

    Rust items modelled:
      window.rs::TimeWindow::{new, add_event, record, contains_timestamp, count, sum, average, min, max}
      window.rs::WindowManager::{process_event, calculate_window_start, cleanup_expired_windows}
      operators.rs::WindowedStream::new   (WindowType::Tumbling branch; HashMap order = sorted by start)
      event.rs::StreamEvent::get_numeric
    Timestamps: u64 as N (start + duration and now + 1 are assumed not to overflow: the harness keeps
    timestamps below 2^62).  Floats: Base/Float.v. *)
From RRE Require Import Base.Sx Base.Float.
From Coq Require Import Floats.SpecFloat.
Open Scope N_scope.

(** field value of the aggregated field: missing / Number bits / Integer / non-numeric *)
Inductive fval := FMissing | FNumber (bits : Z) | FInteger (z : Z) | FOther.

Record event := { eid : N; ets : N; efld : fval }.

Definition get_numeric (e : event) : option f64 :=
  match efld e with
  | FNumber b => Some (f_of_bits b)
  | FInteger z => Some (f_of_Z z)
  | _ => None
  end.

Record window := { w_start : N; w_end : N; w_events : list event (* oldest first *) }.

Fixpoint drop_front {T} (n : nat) (l : list T) : list T :=
  match n, l with O, _ => l | S k, _ :: r => drop_front k r | S _, [] => [] end.

(** keep at most [cap] newest: pop_front while len > cap *)
Definition cap_events (cap : N) (l : list event) : list event :=
  drop_front (length l - N.to_nat cap) l.

(** TimeWindow::add_event *)
Definition add_event (cap : N) (w : window) (e : event) : window * bool :=
  if (w_start w <=? ets e) && (ets e <? w_end w)
  then ({| w_start := w_start w; w_end := w_end w; w_events := cap_events cap (w_events w ++ [e]) |}, true)
  else (w, false).

(** TimeWindow::record on a Sliding window *)
Definition record (dur cap : N) (w : window) (e : event) : window :=
  let st := ets e - dur in
  {| w_start := st; w_end := ets e + 1;
     w_events := cap_events cap (filter (fun x => negb (ets x <? st)) (w_events w ++ [e])) |}.

(** aggregates: folds over get_numeric of the events, in order *)
Definition numerics (w : window) : list f64 :=
  flat_map (fun e => match get_numeric e with Some x => [x] | None => [] end) (w_events w).

(** Iterator::sum::<f64>() folds with + from -0.0 (the additive identity of IEEE addition) in the
    Rust std this crate builds with; an empty sum is therefore -0.0. *)
Definition fnegzero : f64 := S754_zero true.
Definition w_sum (w : window) : f64 := fold_left fadd (numerics w) fnegzero.
Definition w_avg (w : window) : option f64 :=
  match numerics w with
  | [] => None
  | l => Some (fdiv (fold_left fadd l fnegzero) (f_of_Z (Z.of_nat (length l))))
  end.
Definition w_min (w : window) : option f64 :=
  fold_left (fun acc x => match acc with None => Some x | Some m => Some (fmin m x) end) (numerics w) None.
Definition w_max (w : window) : option f64 :=
  fold_left (fun acc x => match acc with None => Some x | Some m => Some (fmax m x) end) (numerics w) None.

(** ---- WindowManager (tumbling) ---- *)
Fixpoint try_add (cap : N) (ws : list window) (e : event) : option (list window) :=
  match ws with
  | [] => None
  | w :: r => let '(w', ok) := add_event cap w e in
              if ok then Some (w' :: r)
              else match try_add cap r e with Some r' => Some (w :: r') | None => None end
  end.

(** stable insertion sort by start (Vec::sort_by_key is stable) *)
Fixpoint insert_sorted (w : window) (l : list window) : list window :=
  match l with
  | [] => [w]
  | x :: r => if w_start w <? w_start x then w :: l else x :: insert_sorted w r
  end.
Definition sort_windows (l : list window) : list window := fold_left (fun acc w => insert_sorted w acc) l [].

Definition process_event (dur cap maxw : N) (ws : list window) (e : event) : list window :=
  let ws1 := match try_add cap ws e with
             | Some ws' => ws'
             | None =>
                 let st := (ets e / dur) * dur in
                 let '(w, _) := add_event cap {| w_start := st; w_end := st + dur; w_events := [] |} e in
                 ws ++ [w]
             end in
  let ws2 := filter (fun w => negb (w_end w <=? ets e)) ws1 in
  let ws3 := drop_front (length ws2 - N.to_nat maxw) ws2 in
  sort_windows ws3.

(** ---- WindowedStream::new (tumbling) : group by aligned start, windows sorted by start ---- *)
Fixpoint group_add (dur cap : N) (ws : list window) (e : event) : list window :=
  let st := (ets e / dur) * dur in
  match ws with
  | [] => [fst (add_event cap {| w_start := st; w_end := st + dur; w_events := [] |} e)]
  | w :: r => if w_start w =? st then fst (add_event cap w e) :: r else w :: group_add dur cap r e
  end.
Definition windowed (dur cap : N) (es : list event) : list window :=
  sort_windows (fold_left (group_add dur cap) es []).

(** ------------------------------------------------------------------ *)
(** observations *)
Definition enc_of (o : option f64) : sx := sxO (fun f => A (bits_of_f f)) o.
Definition enc_window_ids (w : window) : sx := L [sxN (w_start w); sxN (w_end w); sxNs (map eid (w_events w))].
Definition enc_window_full (w : window) : sx :=
  L [sxN (w_start w); sxN (w_end w); sxNs (map eid (w_events w)); sxN (lenN (w_events w));
     A (bits_of_f (w_sum w)); enc_of (w_avg w); enc_of (w_min w); enc_of (w_max w)].

Fixpoint run_record (dur cap : N) (w : window) (es : list event) : list sx :=
  match es with [] => [] | e :: r => let w' := record dur cap w e in enc_window_full w' :: run_record dur cap w' r end.

Fixpoint run_mgr (dur cap maxw : N) (ws : list window) (es : list event) : list sx :=
  match es with [] => [] | e :: r => let ws' := process_event dur cap maxw ws e in
                                     L (map enc_window_ids ws') :: run_mgr dur cap maxw ws' r end.

(** ------------------------------------------------------------------ *)
(** Specification monitors (the property's sentences), on decoded observations. *)
Record wobs := { ob_start : N; ob_end : N; ob_ids : list N }.

Definition find_ev (es : list event) (i : N) : option event := find (fun e => N.eqb (eid e) i) es.

(** sliding record: after recording e (with [offered] = all events offered so far, e last):
    span is [e.ts - d, e.ts]; retained = the events offered so far that are not older than d
    relative to e, in arrival order, minus an oldest-first prefix dropped by the cap; never more
    than cap; e itself retained (cap >= 1). *)
Definition young (dur : N) (e : event) (x : event) : bool := negb (ets x <? ets e - dur).

(** [is_suffix_of a b]: a is a suffix of b *)
Fixpoint is_suffix_of (a b : list N) : bool :=
  if list_eq_dec N.eq_dec a b then true
  else match b with [] => false | _ :: r => is_suffix_of a r end.

Definition record_step_ok (dur cap : N) (prev_retained : list N) (offered : list event) (e : event) (o : wobs) : bool :=
  (ob_start o =? ets e - dur) && (ob_end o =? ets e + 1) &&
  (* no retained event is older than the duration relative to the recorded event *)
  forallb (fun i => match find_ev offered i with Some x => young dur e x | None => false end) (ob_ids o) &&
  (* nothing young has been dropped except oldest-first by the cap: retained is a suffix of the
     young events among (previously retained ++ [e]), of length min(cap, that many) *)
  (let cand := filter (fun i => match find_ev offered i with Some x => young dur e x | None => false end)
                      (prev_retained ++ [eid e]) in
   is_suffix_of (ob_ids o) cand &&
   (lenN (ob_ids o) =? N.min cap (lenN cand))).

(** aggregates equal the same fold over exactly the retained events *)
Definition aggregates_ok (offered : list event) (ids : list N) (cnt : N) (sum : Z) (avg mn mx : sx) : bool :=
  match mapO (find_ev offered) ids with
  | None => false
  | Some evs =>
      let w := {| w_start := 0; w_end := 0; w_events := evs |} in
      (cnt =? lenN ids) && Z.eqb sum (bits_of_f (w_sum w)) &&
      sx_eqb avg (enc_of (w_avg w)) && sx_eqb mn (enc_of (w_min w)) && sx_eqb mx (enc_of (w_max w))
  end.

Fixpoint ok_record (dur cap : N) (prev : list N) (offered : list event) (es : list event) (os : list sx) : bool :=
  match es, os with
  | [], [] => true
  | e :: r, L [st; en; ids; cnt; A sum; avg; mn; mx] :: orr =>
      match getN st, getN en, getNs ids, getN cnt with
      | Some st, Some en, Some ids, Some cnt =>
          let offered' := offered ++ [e] in
          record_step_ok dur cap prev offered' e {| ob_start := st; ob_end := en; ob_ids := ids |}
          && aggregates_ok offered' ids cnt sum avg mn mx
          && ok_record dur cap ids offered' r orr
      | _, _, _, _ => false
      end
  | _, _ => false
  end.

(** tumbling placement: every window's span is an aligned interval of length dur, starts are
    distinct and ascending, every event of a window lies in its span, the event just processed
    is in exactly one window (the aligned one), and no event id occurs twice. *)
Definition dec_wobs (s : sx) : option wobs :=
  match s with
  | L [st; en; ids] => match getN st, getN en, getNs ids with
                       | Some st, Some en, Some ids => Some {| ob_start := st; ob_end := en; ob_ids := ids |}
                       | _, _, _ => None end
  | _ => None end.

Fixpoint ascending (l : list N) : bool :=
  match l with x :: ((y :: _) as r) => (x <? y) && ascending r | _ => true end.

Definition windows_wellformed (dur : N) (offered : list event) (ws : list wobs) : bool :=
  forallb (fun w => (ob_start w mod dur =? 0) && (ob_end w =? ob_start w + dur) &&
                    forallb (fun i => match find_ev offered i with
                                      | Some x => (ob_start w <=? ets x) && (ets x <? ob_end w)
                                      | None => false end) (ob_ids w)) ws
  && ascending (map ob_start ws)
  && nodupN (flat_map ob_ids ws).

Definition placed_once (dur : N) (e : event) (ws : list wobs) : bool :=
  Nat.eqb (length (filter (fun w => memN (eid e) (ob_ids w)) ws)) 1
  && forallb (fun w => if memN (eid e) (ob_ids w) then ob_start w =? (ets e / dur) * dur else true) ws.

Fixpoint ok_mgr (dur : N) (offered : list event) (es : list event) (os : list sx) : bool :=
  match es, os with
  | [], [] => true
  | e :: r, L ws :: orr =>
      match mapO dec_wobs ws with
      | Some ws => let offered' := offered ++ [e] in
                   windows_wellformed dur offered' ws && placed_once dur e ws && ok_mgr dur offered' r orr
      | None => false end
  | _, _ => false
  end.

(** WindowedStream (no expiry; cap large): every event in exactly one window, the aligned one *)
Definition ok_windowed (dur : N) (es : list event) (o : sx) : bool :=
  match o with
  | L ws => match mapO dec_wobs ws with
            | Some ws => windows_wellformed dur es ws && forallb (fun e => placed_once dur e ws) es
            | None => false end
  | _ => false end.

(** ------------------------------------------------------------------ *)
(** wire: case = (0 dur cap (ev ...)) record | (1 dur cap maxw (ev ...)) manager | (2 dur cap (ev ...)) windowed
    ev = (id ts fv) ; fv = (0) | (1 bits) | (2 z) | (3) *)
Definition dec_fval (s : sx) : option fval :=
  match s with
  | L [A 0] => Some FMissing | L [A 1; A b] => Some (FNumber b) | L [A 2; A z] => Some (FInteger z)
  | L [A 3] => Some FOther | _ => None end.
Definition dec_event (s : sx) : option event :=
  match s with
  | L [i; t; f] => match getN i, getN t, dec_fval f with
                   | Some i, Some t, Some f => Some {| eid := i; ets := t; efld := f |}
                   | _, _, _ => None end
  | _ => None end.

Definition run_sx (c : sx) : sx :=
  match c with
  | L [A 0; d; cp; L es] =>
      match getN d, getN cp, mapO dec_event es with
      | Some d, Some cp, Some es => L (run_record d cp {| w_start := 0; w_end := d; w_events := [] |} es)
      | _, _, _ => sx_bad end
  | L [A 1; d; cp; mw; L es] =>
      match getN d, getN cp, getN mw, mapO dec_event es with
      | Some d, Some cp, Some mw, Some es => if d =? 0 then sx_bad else L (run_mgr d cp mw [] es)
      | _, _, _, _ => sx_bad end
  | L [A 2; d; cp; L es] =>
      match getN d, getN cp, mapO dec_event es with
      | Some d, Some cp, Some es => if d =? 0 then sx_bad else L (map enc_window_ids (windowed d cp es))
      | _, _, _ => sx_bad end
  | _ => sx_bad end.

Definition ok_sx (c o : sx) : bool :=
  match c, o with
  | L [A 0; d; cp; L es], L os =>
      match getN d, getN cp, mapO dec_event es with
      | Some d, Some cp, Some es => (1 <=? cp) && ok_record d cp [] [] es os
      | _, _, _ => false end
  | L [A 1; d; cp; mw; L es], L os =>
      match getN d, getN cp, getN mw, mapO dec_event es with
      | Some d, Some cp, Some mw, Some es => ok_mgr d [] es os
      | _, _, _, _ => false end
  | L [A 2; d; cp; L es], _ =>
      match getN d, getN cp, mapO dec_event es with
      | Some d, Some cp, Some es => ok_windowed d es o
      | _, _, _ => false end
  | _, _ => false end.
