(** C14 — model of src/rete/stream_join_node.rs (StreamJoinNode, JoinType::Inner,
    JoinStrategy::TimeWindow).  Definitions only.

    Rust items modelled:
      stream_join_node.rs::StreamJoinNode::{process_left, process_right, update_watermark,
           is_within_window, evict_expired_events, get_window_duration, generate_event_id}
    The key extractors and the join condition are user closures: [key] is a field of the event,
    the condition is a parameter [cond].  Timestamps and the window are in the code's own unit
    (duration.as_secs() compared with raw timestamps).  HashMap iteration order only affects the
    order of the pairs emitted by update_watermark; emitted pairs are compared as sorted lists.
    Event ids are unique per stream (generate_event_id = id + timestamp). *)
From RRE Require Import Base.Sx.
Open Scope Z_scope.

Record event := { eid : Z; ets : Z; ekey : option Z; eattr : Z }.

Definition within (w : Z) (l r : event) : bool := Z.abs (ets l - ets r) <=? w.

Section Join.
Variable cond : event -> event -> bool.
Variable w : Z.     (* window, duration.as_secs() *)

Definition buf := list (Z * list event).

Definition buf_get (b : buf) (k : Z) : list event :=
  match find (fun e => Z.eqb (fst e) k) b with Some e => snd e | None => [] end.

Definition buf_push (b : buf) (k : Z) (e : event) : buf :=
  if existsb (fun x => Z.eqb (fst x) k) b
  then map (fun x => if Z.eqb (fst x) k then (fst x, snd x ++ [e]) else x) b
  else b ++ [(k, [e])].

Fixpoint memZ (x : Z) (l : list Z) : bool := match l with [] => false | y :: r => Z.eqb x y || memZ x r end.
Definition addZ (x : Z) (l : list Z) : list Z := if memZ x l then l else l ++ [x].

Record jstate := {
  lbuf : buf; rbuf : buf;
  lmatched : list Z; rmatched : list Z;     (* keys of left_matched / right_matched *)
  wm : Z
}.

Definition init : jstate := {| lbuf := []; rbuf := []; lmatched := []; rmatched := []; wm := 0 |}.

Definition process_left (s : jstate) (e : event) : jstate * list (Z * Z) :=
  match ekey e with
  | None => (s, [])
  | Some k =>
      let rs := filter (fun r => within w e r && cond e r) (buf_get (rbuf s) k) in
      ({| lbuf := buf_push (lbuf s) k e; rbuf := rbuf s;
          lmatched := match rs with [] => lmatched s | _ => addZ (eid e) (lmatched s) end;
          rmatched := fold_left (fun m r => addZ (eid r) m) rs (rmatched s);
          wm := wm s |},
       map (fun r => (eid e, eid r)) rs)
  end.

Definition process_right (s : jstate) (e : event) : jstate * list (Z * Z) :=
  match ekey e with
  | None => (s, [])
  | Some k =>
      let ls := filter (fun l => within w l e && cond l e) (buf_get (lbuf s) k) in
      ({| lbuf := lbuf s; rbuf := buf_push (rbuf s) k e;
          lmatched := fold_left (fun m l => addZ (eid l) m) ls (lmatched s);
          rmatched := match ls with [] => rmatched s | _ => addZ (eid e) (rmatched s) end;
          wm := wm s |},
       map (fun l => (eid l, eid e)) ls)
  end.

(** evict_expired_events on one queue: pop from the front while expired *)
Fixpoint evict_queue (wmk : Z) (q : list event) : list event * list event (* kept, evicted *) :=
  match q with
  | [] => ([], [])
  | e :: r => if wmk - ets e >? w then let '(k, ev) := evict_queue wmk r in (k, e :: ev) else (q, [])
  end.

Definition evict_buf (wmk : Z) (b : buf) (matched : list Z) : buf * list Z :=
  fold_left (fun acc kq =>
     let '(k, ev) := evict_queue wmk (snd kq) in
     (match k with [] => fst acc | _ => fst acc ++ [(fst kq, k)] end,
      filter (fun i => negb (memZ i (map eid ev))) (snd acc))) b ([], matched).

(** update_watermark: re-scan (emits a satisfying pair unless both are flagged), then evict *)
Definition rescan (s : jstate) : list (Z * Z) * list Z * list Z :=
  fold_left (fun acc kq =>
    fold_left (fun acc l =>
      fold_left (fun acc r =>
        let '(out, lm, rm) := acc in
        if within w l r && cond l r && (negb (memZ (eid l) lm) || negb (memZ (eid r) rm))
        then (out ++ [(eid l, eid r)], addZ (eid l) lm, addZ (eid r) rm) else acc)
        (buf_get (rbuf s) (fst kq)) acc) (snd kq) acc) (lbuf s) ([], lmatched s, rmatched s).

Definition update_watermark (s : jstate) (z : Z) : jstate * list (Z * Z) :=
  let '(out, lm, rm) := rescan s in
  let '(lb, lm') := evict_buf z (lbuf s) lm in
  let '(rb, rm') := evict_buf z (rbuf s) rm in
  ({| lbuf := lb; rbuf := rb; lmatched := lm'; rmatched := rm'; wm := z |}, out).

Inductive op := OLeft (e : event) | ORight (e : event) | OWm (z : Z).

Definition step (s : jstate) (o : op) : jstate * list (Z * Z) :=
  match o with OLeft e => process_left s e | ORight e => process_right s e | OWm z => update_watermark s z end.

Fixpoint run_from (s : jstate) (ops : list op) : list (list (Z * Z)) :=
  match ops with [] => [] | o :: r => let '(s', out) := step s o in out :: run_from s' r end.

(** ---- reference join ---- *)
Definition same_key (l r : event) : bool :=
  match ekey l, ekey r with Some a, Some b => Z.eqb a b | _, _ => false end.

Definition ref_join (Ls Rs : list event) : list (Z * Z) :=
  flat_map (fun l => map (fun r => (eid l, eid r))
                         (filter (fun r => same_key l r && within w l r && cond l r) Rs)) Ls.

End Join.

(** ------------------------------------------------------------------ *)
(** concrete join conditions used by the harness (kind 0: always; 1: l.attr <= r.attr; 2: l.attr <> r.attr) *)
Definition cond_of (kind : Z) (l r : event) : bool :=
  match kind with
  | 1 => eattr l <=? eattr r
  | 2 => negb (eattr l =? eattr r)
  | _ => true
  end.

Definition pair_leb (a b : Z * Z) : bool :=
  (fst a <? fst b) || ((fst a =? fst b) && (snd a <=? snd b)).
Fixpoint insert_pair (p : Z * Z) (l : list (Z * Z)) : list (Z * Z) :=
  match l with [] => [p] | x :: r => if pair_leb p x then p :: l else x :: insert_pair p r end.
Definition sort_pairs (l : list (Z * Z)) : list (Z * Z) := fold_left (fun acc p => insert_pair p acc) l [].

Definition enc_pairs (l : list (Z * Z)) : sx := L (map (fun p => L [A (fst p); A (snd p)]) (sort_pairs l)).

Definition lefts (ops : list op) : list event := flat_map (fun o => match o with OLeft e => [e] | _ => [] end) ops.
Definition rights (ops : list op) : list event := flat_map (fun o => match o with ORight e => [e] | _ => [] end) ops.

(** does some watermark update of the history evict (conservatively: any earlier event is expired)? *)
Fixpoint may_evict (w : Z) (seen : list event) (ops : list op) : bool :=
  match ops with
  | [] => false
  | OLeft e :: r | ORight e :: r => may_evict w (e :: seen) r
  | OWm z :: r => existsb (fun e => z - ets e >? w) seen || may_evict w seen r
  end.

Fixpoint nodup_pairs (l : list (Z * Z)) : bool :=
  match l with
  | [] => true
  | p :: r => negb (existsb (fun q => (fst p =? fst q) && (snd p =? snd q)) r) && nodup_pairs r
  end.

Definition pairs_eqb (a b : list (Z * Z)) : bool := sx_eqb (enc_pairs a) (enc_pairs b).
Definition subset_pairs (a b : list (Z * Z)) : bool :=
  forallb (fun p => existsb (fun q => (fst p =? fst q) && (snd p =? snd q)) b) a.

(** monitor: emitted over the run = reference join, each once (no eviction); with eviction:
    emitted is a duplicate-free subset of the reference join *)
Definition ok (kind w : Z) (ops : list op) (outs : list (list (Z * Z))) : bool :=
  let emitted := concat outs in
  let ref := ref_join (cond_of kind) w (lefts ops) (rights ops) in
  Nat.eqb (length outs) (length ops) &&
  nodup_pairs emitted &&
  if may_evict w [] ops then subset_pairs emitted ref else pairs_eqb emitted ref.

(** wire: case = (kind w (op ...)); op = (0 id ts key attr) left | (1 id ts key attr) right | (2 z) watermark;
    key = () | (k).  obs = ((pair ...) ...) sorted per op *)
Definition dec_key (s : sx) : option (option Z) :=
  match s with L [] => Some None | L [A k] => Some (Some k) | _ => None end.
Definition dec_op (s : sx) : option op :=
  match s with
  | L [A 0; A i; A t; k; A a] => match dec_key k with Some k => Some (OLeft {| eid := i; ets := t; ekey := k; eattr := a |}) | None => None end
  | L [A 1; A i; A t; k; A a] => match dec_key k with Some k => Some (ORight {| eid := i; ets := t; ekey := k; eattr := a |}) | None => None end
  | L [A 2; A z] => Some (OWm z)
  | _ => None end.
Definition dec_case (s : sx) : option (Z * Z * list op) :=
  match s with
  | L [A kind; A w; L ops] => match mapO dec_op ops with Some ops => Some (kind, w, ops) | None => None end
  | _ => None end.
Definition dec_pair (s : sx) : option (Z * Z) := match s with L [A a; A b] => Some (a, b) | _ => None end.
Definition dec_out (s : sx) : option (list (Z * Z)) := match s with L l => mapO dec_pair l | _ => None end.

Definition run_sx (c : sx) : sx :=
  match dec_case c with
  | Some (kind, w, ops) => L (map enc_pairs (run_from (cond_of kind) w init ops))
  | None => sx_bad end.
Definition ok_sx (c o : sx) : bool :=
  match dec_case c, o with
  | Some (kind, w, ops), L os => match mapO dec_out os with Some outs => ok kind w ops outs | None => false end
  | _, _ => false end.
