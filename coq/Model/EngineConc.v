(** C02 / C03 — concrete instance of Model/Engine.v used by the correspondence runs:
    integer fields F.f0..F.f3, conditions = conjunctions of comparisons with constants, actions =
    assign a constant, add a constant (the GRL expression "F.fi + c"), ActivateAgendaGroup.
    Rust items additionally exercised through this instance:
      engine.rs::{evaluate_conditions (And of Single), evaluate_single_condition (Integer vs Integer),
                  execute_action (Set with literal / Expression, Append, ActivateAgendaGroup)}
    Definitions only. *)
From RRE Require Import Base.Sx Model.Engine.
Open Scope Z_scope.

Inductive cmp := CEq | CNe | CLt | CLe | CGt | CGe.
Definition atom := (Z * cmp * Z)%type.
Definition cond := list atom.                     (* conjunction; [] = true is never generated *)
Inductive action := ASet (f v : Z) | AAdd (f c : Z) | AFocus (g : Z).
Definition store := list (Z * Z).

Fixpoint sget (s : store) (f : Z) : Z := match s with [] => 0 | (k, v) :: r => if k =? f then v else sget r f end.
Fixpoint sset (s : store) (f v : Z) : store :=
  match s with [] => [(f, v)] | (k, x) :: r => if k =? f then (k, v) :: r else (k, x) :: sset r f v end.

Definition eval_atom (s : store) (a : atom) : bool :=
  let '(f, c, k) := a in
  let x := sget s f in
  match c with CEq => x =? k | CNe => negb (x =? k) | CLt => x <? k | CLe => x <=? k | CGt => k <? x | CGe => k <=? x end.
Definition eval (c : cond) (s : store) : bool := forallb (eval_atom s) c.
Definition act (a : action) (s : store) : store * list effect :=
  match a with
  | ASet f v => (sset s f v, [])
  | AAdd f c => (sset s f (sget s f + c), [])
  | AFocus g => (s, [EFocus g])
  end.

Definition crule := rule cond action.
Definition cengine := engine cond action.

Inductive hop :=
| HExecute (t : Z) (maxc : nat)
| HSetFocus (g : Z) | HPopFocus | HClearFocus | HResetNoLoop
| HEnable (name : Z) (b : bool)
| HRemoveRule (name : Z)   (* engine.knowledge_base().remove_rule: the no-loop record of the engine is keyed by name and is NOT pruned *)
| HAddRule (r : crule)     (* engine.knowledge_base().add_rule (names are kept distinct by the generator) *)
| HActivate (g : Z)   (* RustRuleEngine::activate_agenda_group: the API counterpart of the ActivateAgendaGroup action; documented meaning: the group gets the focus, once *).

Definition set_enabled (e : cengine) (n : Z) (b : bool) : cengine :=
  {| rules := map (fun r => if r_name r =? n
                            then {| r_name := r_name r; r_sal := r_sal r; r_enabled := b; r_noloop := r_noloop r; r_lock := r_lock r;
                                    r_agenda := r_agenda r; r_actgroup := r_actgroup r; r_from := r_from r; r_until := r_until r;
                                    r_cond := r_cond r; r_actions := r_actions r |} else r) (rules e);
     fired_global := fired_global e; ag := ag e; act_fired := act_fired e; queue := queue e |}.

Definition hstep (es : cengine * store) (o : hop) : (cengine * store) * sx :=
  let '(e, s) := es in
  match o with
  | HExecute t mc =>
      let '(e1, s1, r) := execute eval act mc t e s in
      ((e1, s1), L [A (res_cycles r); A (res_fired r); sxZs (concat (res_trace r));
                    sxZs (map (sget s1) [0; 1; 2; 3]); A (active (ag e1))])
  | HSetFocus g => ((with_ag e (set_focus (ag e) g), s), L [A (active (set_focus (ag e) g))])
  | HPopFocus => ((with_ag e (pop_focus (ag e)), s), L [A (active (pop_focus (ag e)))])
  | HClearFocus => ((with_ag e (clear_focus (ag e)), s), L [A main])
  | HResetNoLoop => (({| rules := rules e; fired_global := []; ag := ag e; act_fired := act_fired e; queue := queue e |}, s), L [A (active (ag e))])
  | HEnable n b => ((set_enabled e n b, s), L [A (active (ag e))])
  | HActivate g => ((with_ag e (set_focus (ag e) g), s), L [A (active (set_focus (ag e) g))])
  | HRemoveRule n =>
      (({| rules := filter (fun r => negb (r_name r =? n)) (rules e); fired_global := fired_global e; ag := ag e;
           act_fired := act_fired e; queue := queue e |}, s), L [A (active (ag e))])
  | HAddRule r => ((add_rule e r, s), L [A (active (ag e))])
  end.

Fixpoint hrun (es : cengine * store) (ops : list hop) : list sx :=
  match ops with [] => [] | o :: r => let '(es', ob) := hstep es o in ob :: hrun es' r end.

(** wire: case = ((rule ...) (f0 f1 f2 f3) (hop ...))
    rule = (name sal enabled noloop lock agenda actgroup from until (atom ...) (action ...))
    agenda/actgroup/from/until = () | (z) ; atom = (f cmp k), cmp 0..5 ; action = (0 f v) | (1 f c) | (2 g)
    hop = (0 t maxc) | (1 g) | (2) | (3) | (4) | (5 name b) | (6 g) activate_agenda_group | (7 name) remove_rule | (8 rule) add_rule *)
Definition dec_oz (s : sx) : option (option Z) := match s with L [] => Some None | L [A z] => Some (Some z) | _ => None end.
Definition dec_cmp (s : sx) : option cmp :=
  match s with A 0 => Some CEq | A 1 => Some CNe | A 2 => Some CLt | A 3 => Some CLe | A 4 => Some CGt | A 5 => Some CGe | _ => None end.
Definition dec_atom (s : sx) : option atom :=
  match s with L [A f; c; A k] => option_map (fun c => (f, c, k)) (dec_cmp c) | _ => None end.
Definition dec_action (s : sx) : option action :=
  match s with
  | L [A 0; A f; A v] => Some (ASet f v) | L [A 1; A f; A c] => Some (AAdd f c) | L [A 2; A g] => Some (AFocus g)
  | _ => None end.
Definition dec_rule (s : sx) : option crule :=
  match s with
  | L [A n; A sal; en; nl; lk; agd; acg; fr; un; L atoms; L acts] =>
      match getB en, getB nl, getB lk, dec_oz agd, dec_oz acg with
      | Some en, Some nl, Some lk, Some agd, Some acg =>
          match dec_oz fr, dec_oz un, mapO dec_atom atoms, mapO dec_action acts with
          | Some fr, Some un, Some atoms, Some acts =>
              Some {| r_name := n; r_sal := sal; r_enabled := en; r_noloop := nl; r_lock := lk; r_agenda := agd;
                      r_actgroup := acg; r_from := fr; r_until := un; r_cond := atoms; r_actions := acts |}
          | _, _, _, _ => None end
      | _, _, _, _, _ => None end
  | _ => None end.
Definition dec_hop (s : sx) : option hop :=
  match s with
  | L [A 0; A t; mc] => option_map (fun mc => HExecute t (N.to_nat mc)) (getN mc)
  | L [A 1; A g] => Some (HSetFocus g) | L [A 2] => Some HPopFocus | L [A 3] => Some HClearFocus
  | L [A 4] => Some HResetNoLoop
  | L [A 5; A n; b] => option_map (HEnable n) (getB b)
  | L [A 6; A g] => Some (HActivate g)
  | L [A 7; A n] => Some (HRemoveRule n)
  | L [A 8; r] => option_map HAddRule (dec_rule r)
  | _ => None end.

Definition run_sx (c : sx) : sx :=
  match c with
  | L [L rs; fs; L ops] =>
      match mapO dec_rule rs, getZs fs, mapO dec_hop ops with
      | Some rs, Some [a; b; c0; d], Some ops =>
          let e := fold_left add_rule rs engine_init in
          L (hrun (e, [(0, a); (1, b); (2, c0); (3, d)]) ops)
      | _, _, _ => sx_bad end
  | _ => sx_bad end.

(** the monitor for C02/C03 is equality with this model: every theorem of Properties/C02.v and C03.v is
    about [execute], so an implementation that is observed to agree with it on a case inherits them
    on that case *)
Definition ok_sx (c o : sx) : bool := sx_eqb (run_sx c) o.
