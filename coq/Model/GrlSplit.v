(** C04 — the quote-aware splitting layer of src/parser/grl.rs below the regular expressions: the statement split of
    parse_then_clause, split_arguments, find_outside_strings and the assignment / append classification at the head of
    parse_action_statement.  Strings are lists of Unicode scalar values with UTF-8 byte offsets (Model/ExprShape.v);
    a byte slice that the code takes is a [slice] here (None = the panic of a slice off a character boundary).
    Definitions only.

    Rust items modelled:
      grl.rs::GRLParser::{parse_then_clause (statement boundaries, trim, empty statements dropped),
                          split_arguments, find_outside_strings,
                          parse_action_statement (the `+=` and `=` branches: which statement is an append / an assignment,
                          of which field, with which value text)}
    Not modelled: method_call_regex / function_binding_regex (rexile) and parse_value; a statement that is neither an
    append nor an assignment is [SOther]. *)
From RRE Require Import Base.Sx Model.ExprShape.
Open Scope Z_scope.

Definition trimw (s : str) : str := trim ws_unicode s.
Definition is_quote (c : Z) : bool := (c =? 34) || (c =? 39).

(** the quote automaton shared by the three scanners: inside a literal only its own quote character ends it *)
Definition qstep (q : option Z) (c : Z) : option Z :=
  match q with
  | Some x => if c =? x then None else q
  | None => if is_quote c then Some c else None
  end.
Definition scan (q : option Z) (s : str) : option Z := fold_left qstep s q.

(** split at every [sep] outside string literals *)
Fixpoint split_q (sep : Z) (s : str) (q : option Z) (cur : str) : list str :=
  match s with
  | [] => [rev cur]
  | c :: r =>
      match q with
      | Some _ => split_q sep r (qstep q c) (c :: cur)
      | None => if is_quote c then split_q sep r (Some c) (c :: cur)
                else if c =? sep then rev cur :: split_q sep r None []
                else split_q sep r None (c :: cur)
      end
  end.
Definition split_arguments (s : str) : list str := split_q 44 s None [].
Definition nonempty (t : str) : bool := match t with [] => false | _ => true end.
Definition then_statements (s : str) : list str := filter nonempty (map trimw (split_q 59 s None [])).

(** find_outside_strings: byte offset of the first position outside a literal (and not on an opening quote) where [pat] starts *)
Fixpoint find_out (pat s : str) (q : option Z) (off : Z) : option Z :=
  match s with
  | [] => None
  | c :: r =>
      match q with
      | Some _ => find_out pat r (qstep q c) (off + utf8_len c)
      | None => if is_quote c then find_out pat r (Some c) (off + utf8_len c)
                else if starts_with s pat then Some off
                else find_out pat r None (off + utf8_len c)
      end
  end.
Definition find_outside (s pat : str) : option Z := find_out pat s None 0.

Inductive stmt :=
| SAppend (field value : str)
| SSet (field value : str)
| SOther (text : str)
| SPanic.

Definition s_pluseq : str := [43; 61].
Definition s_eq : str := [61].

Definition classify (st : str) : stmt :=
  let t := trimw st in
  match find_outside t s_pluseq with
  | Some p => match slice t 0 p, slice t (p + 2) (blen t) with
              | Some f, Some v => SAppend (trimw f) (trimw v)
              | _, _ => SPanic end
  | None =>
      match find_outside t s_eq with
      | Some p => match slice t 0 p, slice t (p + 1) (blen t) with
                  | Some f, Some v => SSet (trimw f) (trimw v)
                  | _, _ => SPanic end
      | None => SOther t
      end
  end.
Definition parse_then (s : str) : list stmt := map classify (then_statements s).

(** split_when_then (repair fded141): the conditions start after the first `when` that is followed by whitespace and end at the
    first whitespace character OUTSIDE string literals (not the first character of the conditions) after which - skipping further
    whitespace - the keyword `then`, at least one whitespace character and a non-empty rest follow *)
Definition s_when : str := [119; 104; 101; 110].
Definition s_then : str := [116; 104; 101; 110].
Definition tstart (s : str) : str := trim_start ws_unicode s.

Fixpoint after_when (fuel : nat) (s : str) : option str :=
  match fuel with
  | O => None
  | S f =>
      if starts_with s s_when then
        let r := skipn 4 s in
        let r' := tstart r in
        if (length r' <? length r)%nat then Some r' else after_when f r
      else match s with [] => None | _ :: r => after_when f r end
  end.

Fixpoint scan_then (s : str) (q : option Z) (acc : str) (first : bool) : option (str * str) :=
  match s with
  | [] => None
  | c :: r =>
      match q with
      | Some _ => scan_then r (qstep q c) (c :: acc) false
      | None =>
          if is_quote c then scan_then r (Some c) (c :: acc) false
          else if ws_unicode c && negb first then
                 let rest := tstart s in
                 if starts_with rest s_then then
                   let tail := skipn 4 rest in
                   let actions := tstart tail in
                   if (length actions <? length tail)%nat && nonempty actions then Some (rev acc, actions)
                   else scan_then r None (c :: acc) false
                 else scan_then r None (c :: acc) false
               else scan_then r None (c :: acc) false
      end
  end.

Definition split_when_then (body : str) : option (str * str) :=
  match after_when (S (length body)) body with
  | Some conds => scan_then conds None [] true
  | None => None
  end.

(** ---------- the written side: what a then clause / an argument list is made of ---------- *)
(** a piece of text that leaves the quote automaton where it found it (outside) and contains no separator outside its literals *)
Fixpoint nosep_q (sep : Z) (s : str) (q : option Z) : bool :=
  match s with
  | [] => true
  | c :: r => match q with
              | Some _ => nosep_q sep r (qstep q c)
              | None => negb (c =? sep) && nosep_q sep r (qstep None c)
              end
  end.
Definition piece_ok (sep : Z) (p : str) : Prop := scan None p = None /\ nosep_q sep p None = true.

Fixpoint join (sep : Z) (ps : list str) : str :=
  match ps with [] => [] | [p] => p | p :: r => p ++ sep :: join sep r end.

(** a string literal in quote character x with a content free of x *)
Definition literal (x : Z) (content : str) : str := x :: content ++ [x].

(** ---------- wire ----------
    C04 cases (2 text) split_arguments | (3 text pat) find_outside_strings | (4 text) parse_then_clause
    observations: (2 ...) -> (piece ...) ; (3 ...) -> () | (offset) ;
                  (4 ...) -> (0 ((kind field) ...)) with kind 0 append / 1 assignment / 2 other, or (1) when the code returned Err *)
Definition enc_s (s : str) : sx := L (map A s).
Definition run_split_args (t : str) : sx := L (map enc_s (split_arguments t)).
Definition run_find (t pat : str) : sx := match find_outside t pat with Some p => L [A p] | None => L [] end.
Definition enc_stmt (s : stmt) : sx :=
  match s with
  | SAppend f _ => L [A 0; enc_s f]
  | SSet f _ => L [A 1; enc_s f]
  | SOther _ => L [A 2; L []]
  | SPanic => L [A 9; L []]
  end.
Definition run_then (t : str) : sx := L [A 0; L (map enc_stmt (parse_then t))].
(* (5 text) split_when_then -> () | ((conditions) (actions)) *)
Definition run_when_then (t : str) : sx := match split_when_then t with Some (c, a) => L [enc_s c; enc_s a] | None => L [] end.
