(** C01 — model of condition evaluation, expression evaluation and assignment in the forward-chaining
    engine: src/types.rs (Value, Operator::evaluate, to_number), src/expression.rs (evaluate_expression,
    apply_operator; after repairs 32df0c7 / aee5bb9 / 3368d97 / e2ff44b / 037343a / 20bd893 / bde165d / a-later-fix), src/engine/facts.rs (get, get_nested, set,
    set_nested), src/engine/engine.rs (evaluate_conditions, evaluate_single_condition for Field and
    arithmetic Test conditions, evaluate_arithmetic_condition, execute_action Set).  Definitions only.

    The model works on the Rule structure the GRL parser produces (conditions: Field / arithmetic Test;
    values: String / Number / Integer / Boolean / Array / Null / Expression), on strings as code-point
    lists with byte offsets, and on IEEE-754 binary64 through Coq.Floats.SpecFloat. *)
From RRE Require Import Base.Sx Base.Float Base.Num Model.ExprShape.
From Coq Require Import Floats.SpecFloat.
Open Scope Z_scope.

Inductive value :=
| VStr (s : str) | VNum (f : f64) | VInt (z : Z) | VBool (b : bool) | VArr (l : list value)
| VObj (fs : list (str * value)) | VNull | VExpr (s : str).

(** derived PartialEq on Value (objects never occur in comparisons of the typed core) *)
Fixpoint veqb (a b : value) {struct a} : bool :=
  match a, b with
  | VStr x, VStr y => str_eqb x y
  | VNum x, VNum y => feqb x y
  | VInt x, VInt y => x =? y
  | VBool x, VBool y => Bool.eqb x y
  | VArr x, VArr y =>
      (fix go (x y : list value) : bool :=
         match x, y with [], [] => true | u :: x', v :: y' => veqb u v && go x' y' | _, _ => false end) x y
  | VNull, VNull => true
  | VExpr x, VExpr y => str_eqb x y
  | _, _ => false
  end.

Definition to_number (v : value) : option f64 :=
  match v with VNum n => Some n | VInt i => Some (f_of_Z i) | VStr s => parse_f64 s | _ => None end.

Inductive oper := OEq | ONe | OGt | OGe | OLt | OLe | OContains | ONotContains | OStartsWith | OEndsWith | OMatches | OIn.

Definition s_null : str := [110; 117; 108; 108].
Definition is_nullish (v : value) : bool := match v with VNull => true | VStr s => str_eqb s s_null | _ => false end.

Fixpoint str_starts (s p : str) : bool :=
  match p, s with [], _ => true | x :: p', y :: s' => (x =? y) && str_starts s' p' | _ :: _, [] => false end.
Fixpoint str_contains (s p : str) : bool :=
  str_starts s p || match s with [] => false | _ :: r => str_contains r p end.
Definition str_ends (s p : str) : bool := str_starts (rev s) (rev p).

Definition num2 (f : f64 -> f64 -> bool) (l r : value) : bool :=
  match to_number l, to_number r with Some a, Some b => f a b | _, _ => false end.
Definition str2 (f : str -> str -> bool) (l r : value) : bool :=
  match l, r with VStr a, VStr b => f a b | _, _ => false end.

(** ordering: two integers are compared as integers (5bcadd0), anything else through to_number *)
Definition ord2 (fz : Z -> Z -> bool) (ff : f64 -> f64 -> bool) (l r : value) : bool :=
  match l, r with
  | VInt a, VInt b => fz a b
  | _, _ => num2 ff l r
  end.

(** Operator::evaluate *)
Definition op_eval (o : oper) (l r : value) : bool :=
  match o with
  | OEq => match l, r with
           | VNull, _ | _, VNull => Bool.eqb (is_nullish l) (is_nullish r)
           | _, _ => veqb l r end
  | ONe => match l, r with
           | VNull, _ | _, VNull => negb (Bool.eqb (is_nullish l) (is_nullish r))
           | _, _ => negb (veqb l r) end
  | OGt => ord2 Z.gtb (fun a b => fltb b a) l r
  | OGe => ord2 Z.geb (fun a b => fleb b a) l r
  | OLt => ord2 Z.ltb fltb l r
  | OLe => ord2 Z.leb fleb l r
  | OContains => match l with VArr arr => existsb (fun x => veqb x r) arr | _ => str2 str_contains l r end
  | OMatches => str2 str_contains l r
  | ONotContains => match l with VArr arr => negb (existsb (fun x => veqb x r) arr) | _ => str2 (fun a b => negb (str_contains a b)) l r end
  | OStartsWith => str2 str_starts l r
  | OEndsWith => str2 str_ends l r
  | OIn => match r with VArr arr => existsb (fun x => veqb x l) arr | _ => false end
  end.

(** ---- Facts ---- *)
Definition facts := list (str * value).
Fixpoint fget (f : facts) (k : str) : option value :=
  match f with [] => None | (k', v) :: r => if str_eqb k' k then Some v else fget r k end.
Fixpoint fset (f : facts) (k : str) (v : value) : facts :=
  match f with [] => [(k, v)] | (k', x) :: r => if str_eqb k' k then (k', v) :: r else (k', x) :: fset r k v end.

(** str::split('.') *)
Fixpoint split_dot (s : str) (cur : str) : list str :=
  match s with
  | [] => [rev cur]
  | c :: r => if c =? 46 then rev cur :: split_dot r [] else split_dot r (c :: cur)
  end.
Definition parts_of (s : str) : list str := split_dot s [].

Fixpoint descend (v : value) (ps : list str) : option value :=
  match ps with
  | [] => Some v
  | p :: rest => match v with VObj fs => match fget fs p with Some x => descend x rest | None => None end | _ => None end
  end.
Definition get_nested (f : facts) (path : str) : option value :=
  match parts_of path with
  | [] => None
  | root :: rest => match fget f root with Some v => descend v rest | None => None end
  end.

(** set_nested_in_value: Err when an intermediate is missing or not an object *)
Fixpoint set_in (v : value) (ps : list str) (x : value) : option value :=
  match ps with
  | [] => Some v
  | [p] => match v with VObj fs => Some (VObj (fset fs p x)) | _ => None end
  | p :: rest => match v with
                 | VObj fs => match fget fs p with
                              | Some sub => match set_in sub rest x with Some sub' => Some (VObj (fset fs p sub')) | None => None end
                              | None => None end
                 | _ => None end
  end.
Definition set_nested (f : facts) (path : str) (x : value) : option facts :=
  match parts_of path with
  | [] => None
  | [root] => Some (fset f root x)
  | root :: rest => match fget f root with
                    | Some v => match set_in v rest x with Some v' => Some (fset f root v') | None => None end
                    | None => None end
  end.
(** execute_action Set: nested first, flat key on failure *)
Definition assign (f : facts) (path : str) (x : value) : facts :=
  match set_nested f path x with Some f' => f' | None => fset f path x end.

(** ---- evaluate_expression ---- *)
Inductive eres := EOk (v : value) | EErr | EPanic | EFuel.

Definition i64_ok (z : Z) : bool := (- 2^63 <=? z) && (z <=? 2^63 - 1).

(** two integers: exact whenever the result is an integer in range (checked_add/sub/mul/div/rem) *)
Definition exact_int (a : Z) (op : Z) (b : Z) : option Z :=
  let r := if op =? 43 then Some (a + b) else if op =? 45 then Some (a - b) else if op =? 42 then Some (a * b)
           else if op =? 47 then (if (b =? 0) || negb (Z.rem a b =? 0) then None else Some (Z.quot a b))
           else if op =? 37 then (if b =? 0 then None else Some (Z.rem a b)) else None in
  match r with Some z => if i64_ok z then Some z else None | None => None end.

Definition apply_operator (l : value) (op : Z) (r : value) : eres :=
  let ln := match l with VInt i => Some (f_of_Z i) | VNum n => Some n | VStr s => parse_f64 s | _ => None end in
  let rn := match r with VInt i => Some (f_of_Z i) | VNum n => Some n | VStr s => parse_f64 s | _ => None end in
  match ln, rn with
  | Some a, Some b =>
      match (match l, r with VInt x, VInt y => exact_int x op y | _, _ => None end) with
      | Some z => EOk (VInt z)
      | None =>
          let res := if op =? 43 then Some (fadd a b) else if op =? 45 then Some (fsub a b) else if op =? 42 then Some (fmul a b)
                     else if op =? 47 then (if feqb b fzero then None else Some (fdiv a b))
                     else if op =? 37 then Some (ffmod a b) else None in
          match res with
          | None => EErr
          | Some x => EOk (VNum x)
          end
      end
  | _, _ =>
      if op =? 43 then match l, r with VStr a, VStr b => EOk (VStr (a ++ b)) | _, _ => EErr end
      else EErr
  end.

Definition eleaf (f : facts) (e : str) : eres :=
  let dq := quoted e 34 in let sq := quoted e 39 in
  let lookup := match parse_i64 e with
                | Some i => EOk (VInt i)
                | None => match parse_f64 e with
                          | Some x => EOk (VNum x)
                          | None => match fget f e with
                                    | Some v => EOk v
                                    | None => match get_nested f e with Some v => EOk v | None => EErr end
                                    end
                          end
                end in
  if (2 <=? blen e) && (dq || sq) then
    match slice e 1 (blen e - 1) with
    | None => EPanic
    | Some inner => if (dq && negb (memc 34 inner)) || (sq && negb (memc 39 inner)) then EOk (VStr inner) else lookup
    end
  else lookup.

Fixpoint eval_expr (fuel : nat) (f : facts) (e0 : str) : eres :=
  match fuel with
  | O => EFuel
  | S fu =>
      let e := trim ws_unicode e0 in
      let node (ops : list Z) (k : unit -> eres) : eres :=
        match find_operator ws_unicode ops e with
        | Some pos =>
            match slice e 0 pos, slice e pos (pos + 1), slice e (pos + 1) (blen e) with
            | Some l, Some [op], Some r =>
                match eval_expr fu f l with
                | EOk lv => match eval_expr fu f r with EOk rv => apply_operator lv op rv | x => x end
                | x => x
                end
            | _, _, _ => EPanic
            end
        | None => k tt
        end in
      node plus_minus (fun _ => node mul_div_mod (fun _ =>
        if (2 <=? blen e) && enclosed e 40 41 then
          match slice e 1 (blen e - 1) with Some inner => eval_expr fu f inner | None => EPanic end
        else eleaf f e))
  end.
Definition evaluate_expression (f : facts) (e : str) : eres := eval_expr (S (length e)) f e.

(** ---- conditions ---- *)
Inductive cexpr := CField (name : str) | CTest (name : str).     (* ConditionExpression::Field / Test{name, args = []} *)
Record condition := { c_expr : cexpr; c_op : oper; c_val : value }.
Inductive cgroup := GSingle (c : condition) | GAnd (a b : cgroup) | GOr (a b : cgroup) | GNot (a : cgroup).

Definition retracted_key (obj : str) : str := [95; 114; 101; 116; 114; 97; 99; 116; 101; 100; 95] ++ obj.

(** rfind of a comparison operator, in the order of the table; split at its LAST occurrence OUTSIDE string literals
    (after the repair "fix: an arithmetic condition is split at a comparison operator outside string literals") *)
Definition cmp_ops : list (str * oper) :=
  [([62; 61], OGe); ([60; 61], OLe); ([61; 61], OEq); ([33; 61], ONe); ([62], OGt); ([60], OLt)].

Definition is_quote (c : Z) : bool := (c =? 34) || (c =? 39).
Fixpoint rfind_from (s pat : str) (pos : Z) (quote : option Z) (last : option Z) : option Z :=
  match s with
  | [] => last
  | c :: r =>
      match quote with
      | Some q => rfind_from r pat (pos + utf8_len c) (if c =? q then None else quote) last
      | None => if is_quote c then rfind_from r pat (pos + utf8_len c) (Some c) last
                else rfind_from r pat (pos + utf8_len c) None (if str_starts s pat then Some pos else last)
      end
  end.
Definition rfind (s pat : str) : option Z := rfind_from s pat 0 None None.

(** the quote state after a text *)
Fixpoint qafter (s : str) (q : option Z) : option Z :=
  match s with
  | [] => q
  | c :: r => qafter r (match q with Some x => if c =? x then None else q | None => if is_quote c then Some c else None end)
  end.
Definition balq (s : str) : bool := match qafter s None with None => true | Some _ => false end.

Fixpoint first_op (s : str) (ops : list (str * oper)) : option (Z * str * oper) :=
  match ops with
  | [] => None
  | (p, o) :: rest => match rfind s p with Some pos => Some (pos, p, o) | None => first_op s rest end
  end.

Inductive bres := BOk (b : bool) | BErr | BPanic.

(** evaluate_arithmetic_condition *)
Definition eval_arith_cond (f : facts) (e : str) : bres :=
  match first_op e cmp_ops with
  | None => BErr
  | Some (pos, p, o) =>
      match slice e 0 pos, slice e (pos + blen p) (blen e) with
      | Some l, Some r =>
          let l := trim ws_unicode l in let r := trim ws_unicode r in
          match evaluate_expression f l with
          | EOk lv =>
              let rv := match parse_i64 r with
                        | Some i => VInt i
                        | None => match parse_f64 r with
                                  | Some x => VNum x
                                  | None => match evaluate_expression f r with EOk v => v | _ => VStr r end
                                  end
                        end in
              (* a panic on the right-hand side would propagate; EPanic is impossible (C05) but keep the model honest *)
              match parse_i64 r, parse_f64 r, evaluate_expression f r with
              | None, None, EPanic => BPanic
              | _, _, _ => BOk (op_eval o lv rv)
              end
          | EErr => BErr
          | EPanic => BPanic
          | EFuel => BPanic
          end
      | _, _ => BPanic
      end
  end.

Definition first_part (s : str) : str := match parts_of s with p :: _ => p | [] => [] end.

(** ASCII instance of `c.is_alphanumeric() || c == '_' || c == '.'` (b77133a) *)
Definition field_char (c : Z) : bool :=
  ((48 <=? c) && (c <=? 57)) || ((65 <=? c) && (c <=? 90)) || ((97 <=? c) && (c <=? 122)) || (c =? 95) || (c =? 46).

Definition eval_single (f : facts) (c : condition) : bres :=
  match c_expr c with
  | CField name =>
      if match fget f (retracted_key (first_part name)) with Some (VBool true) => true | _ => false end then BOk false
      else
        let fv := match get_nested f name with Some v => v | None => match fget f name with Some v => v | None => VNull end end in
        let rhs := match c_val c with
                   | VStr s => match get_nested f s with Some v => v | None => match fget f s with Some v => v | None => VStr s end end
                   | VExpr e => match evaluate_expression f e with
                                | EOk v => v
                                | _ => match get_nested f e with Some v => v | None => match fget f e with Some v => v | None =>
                                           if forallb field_char e then VNull else VExpr e end end
                                end
                   | v => v end in
        match c_val c, (match c_val c with VExpr e => evaluate_expression f e | _ => EErr end) with
        | VExpr _, EPanic => BPanic
        | _, _ => BOk (op_eval (c_op c) fv rhs)
        end
  | CTest name =>
      (* not a registered custom function: arithmetic expression; an evaluation error counts as false *)
      match eval_arith_cond f name with BOk b => BOk b | BErr => BOk false | BPanic => BPanic end
  end.

Fixpoint eval_group (f : facts) (g : cgroup) : bres :=
  match g with
  | GSingle c => eval_single f c
  | GAnd a b => match eval_group f a with
                | BOk x => match eval_group f b with BOk y => BOk (x && y) | e => e end
                | e => e end
  | GOr a b => match eval_group f a with
               | BOk x => match eval_group f b with BOk y => BOk (x || y) | e => e end
               | e => e end
  | GNot a => match eval_group f a with BOk x => BOk (negb x) | e => e end
  end.

(** ---- actions: Set { field, value } ---- *)
Definition exec_set (f : facts) (field : str) (v : value) : option facts :=
  match v with
  | VExpr e => match evaluate_expression f e with EOk x => Some (assign f field x) | _ => None end
  | _ => Some (assign f field v)
  end.

Record rule := { r_cond : cgroup; r_sets : list (str * value) }.

(** one consideration of one rule: Ok fired / Err ; the facts afterwards *)
Inductive rres := ROk (fired : bool) (f : facts) | RErr (f : facts) | RPanicked.
Definition consider (f : facts) (r : rule) : rres :=
  match eval_group f (r_cond r) with
  | BOk false => ROk false f
  | BOk true =>
      (fix go (f : facts) (sets : list (str * value)) : rres :=
         match sets with
         | [] => ROk true f
         | (fld, v) :: rest => match exec_set f fld v with Some f' => go f' rest | None => RErr f end
         end) f (r_sets r)
  | BErr => RErr f
  | BPanic => RPanicked
  end.
