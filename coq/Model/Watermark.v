(** C13 — model of src/streaming/watermark.rs
    (WatermarkGenerator, LateDataHandler, WatermarkedStream::add_event).
    Definitions only; proofs are in Proofs/WatermarkProofs.v.

    Rust items modelled:
      watermark.rs::Watermark::is_late
      watermark.rs::WatermarkGenerator::{process_event, maybe_generate_watermark, is_late}
      watermark.rs::LateDataHandler::{handle_late_event, stats}
      watermark.rs::WatermarkedStream::add_event
    Timestamps are u64 in the code; no addition is ever performed on them (only
    comparison and saturating_sub), so unbounded N with truncated subtraction is exact. *)
From RRE Require Import Base.Sx.
Open Scope N_scope.

Inductive wstrat :=
| WBounded (delay : N)      (* BoundedOutOfOrder { max_delay } , delay in ms *)
| WMono                     (* MonotonicAscending *)
| WCustom                   (* Custom: never emits *)
| WPeriodic (emit : bool).  (* Periodic: processing-time oracle says whether interval elapsed *)

Inductive lstrat :=
| LDrop
| LAllowed (maxl : N)
| LSide
| LRecompute.

Record event := { eid : N; ets : N }.

Record wstream := {
  cur : N;                 (* current_watermark.timestamp *)
  maxts : N;               (* max_timestamp *)
  evs : list event;        (* events, oldest first *)
  hist : list N;           (* watermark_history, oldest first *)
  side : list event;       (* late_handler.side_output *)
  late : N; dropped : N; allowed : N
}.

Definition init : wstream :=
  {| cur := 0; maxts := 0; evs := []; hist := []; side := []; late := 0; dropped := 0; allowed := 0 |}.

(** maybe_generate_watermark: candidate, then the final "wm > current" guard *)
Definition candidate (st : wstrat) (c m : N) : option N :=
  match st with
  | WBounded d => let n := m - d in if c <? n then Some n else None
  | WMono => if c <? m then Some m else None
  | WCustom => None
  | WPeriodic e => if e then Some m else None
  end.

Definition gen (st : wstrat) (c m : N) : option N :=
  match candidate st c m with
  | Some w => if c <? w then Some w else None
  | None => None
  end.

Inductive decision := DDrop | DProcess | DSide | DRecompute.

Definition decide (ls : lstrat) (wm ts : N) : decision :=
  match ls with
  | LDrop => DDrop
  | LAllowed ml => if (wm - ts) <=? ml then DProcess else DDrop
  | LSide => DSide
  | LRecompute => DRecompute
  end.

Definition add_event (ws : wstrat) (ls : lstrat) (s : wstream) (e : event) : wstream :=
  if ets e <? cur s then
    (* late: handle_late_event *)
    match decide ls (cur s) (ets e) with
    | DDrop => {| cur := cur s; maxts := maxts s; evs := evs s; hist := hist s; side := side s;
                  late := late s + 1; dropped := dropped s + 1; allowed := allowed s |}
    | DProcess | DRecompute =>
               {| cur := cur s; maxts := maxts s; evs := evs s ++ [e]; hist := hist s; side := side s;
                  late := late s + 1; dropped := dropped s; allowed := allowed s + 1 |}
    | DSide => {| cur := cur s; maxts := maxts s; evs := evs s; hist := hist s; side := side s ++ [e];
                  late := late s + 1; dropped := dropped s; allowed := allowed s |}
    end
  else
    let m := if maxts s <? ets e then ets e else maxts s in
    match gen ws (cur s) m with
    | Some w => {| cur := w; maxts := m; evs := evs s ++ [e]; hist := hist s ++ [w]; side := side s;
                   late := late s; dropped := dropped s; allowed := allowed s |}
    | None => {| cur := cur s; maxts := m; evs := evs s ++ [e]; hist := hist s; side := side s;
                 late := late s; dropped := dropped s; allowed := allowed s |}
    end.

(** the trace of states after each offered event *)
Fixpoint trace (ws : wstrat) (ls : lstrat) (s : wstream) (es : list event) : list wstream :=
  match es with
  | [] => []
  | e :: r => let s' := add_event ws ls s e in s' :: trace ws ls s' r
  end.

(** largest element (0 for the empty list): "the largest timestamp seen" *)
Fixpoint maxN (l : list N) : N := match l with [] => 0 | x :: r => N.max x (maxN r) end.

(** ------------------------------------------------------------------ *)
(** Observation: what the harness prints after every add_event. *)
Record obs := {
  o_wm : N; o_hist : list N; o_evs : list N; o_side : list N;
  o_late : N; o_dropped : N; o_allowed : N; o_sidelen : N
}.

Definition observe (s : wstream) : obs :=
  {| o_wm := cur s; o_hist := hist s; o_evs := map eid (evs s); o_side := map eid (side s);
     o_late := late s; o_dropped := dropped s; o_allowed := allowed s; o_sidelen := lenN (side s) |}.

(** ------------------------------------------------------------------ *)
(** Executable statement of C13 on a sequence of observations (the monitor).
    [prev] is the observation before the event, [mx] the largest timestamp offered
    before it (0 initially, as in the code), [off] the number of events offered before. *)
Definition obs0 : obs :=
  {| o_wm := 0; o_hist := []; o_evs := []; o_side := []; o_late := 0; o_dropped := 0;
     o_allowed := 0; o_sidelen := 0 |}.

Definition eqNs (a b : list N) : bool :=
  if list_eq_dec N.eq_dec a b then true else false.

Definition step_ok (ws : wstrat) (ls : lstrat) (prev : obs) (mx : N) (e : event) (o : obs) : bool :=
  let is_late := ets e <? o_wm prev in
  let mx' := N.max mx (ets e) in
  (* watermarks never move backwards *)
  (o_wm prev <=? o_wm o) &&
  (* bounded out-of-orderness: exact value after an on-time event *)
  (match ws with
   | WBounded d => if is_late then true else o_wm o =? (mx' - d)
   | _ => true
   end) &&
  (* late iff below the current watermark: a late event never moves the watermark, and is
     counted; an on-time event is accepted and not counted *)
  (if is_late
   then (o_wm o =? o_wm prev) && (o_late o =? o_late prev + 1)
   else (o_late o =? o_late prev) && eqNs (o_evs o) (o_evs prev ++ [eid e])
        && eqNs (o_side o) (o_side prev) && (o_dropped o =? o_dropped prev)
        && (o_allowed o =? o_allowed prev)) &&
  (* outcome of a late event by strategy *)
  (if is_late then
     match ls with
     | LDrop => eqNs (o_evs o) (o_evs prev) && eqNs (o_side o) (o_side prev)
                && (o_dropped o =? o_dropped prev + 1) && (o_allowed o =? o_allowed prev)
     | LAllowed ml =>
         if (o_wm prev - ets e) <=? ml
         then eqNs (o_evs o) (o_evs prev ++ [eid e]) && eqNs (o_side o) (o_side prev)
              && (o_dropped o =? o_dropped prev) && (o_allowed o =? o_allowed prev + 1)
         else eqNs (o_evs o) (o_evs prev) && eqNs (o_side o) (o_side prev)
              && (o_dropped o =? o_dropped prev + 1) && (o_allowed o =? o_allowed prev)
     | LSide => eqNs (o_evs o) (o_evs prev) && eqNs (o_side o) (o_side prev ++ [eid e])
                && (o_dropped o =? o_dropped prev) && (o_allowed o =? o_allowed prev)
     | LRecompute => eqNs (o_evs o) (o_evs prev ++ [eid e]) && eqNs (o_side o) (o_side prev)
                && (o_dropped o =? o_dropped prev) && (o_allowed o =? o_allowed prev + 1)
     end
   else true) &&
  (* history is extended exactly when the watermark advanced *)
  (if o_wm prev <? o_wm o then eqNs (o_hist o) (o_hist prev ++ [o_wm o])
   else eqNs (o_hist o) (o_hist prev)) &&
  (o_sidelen o =? lenN (o_side o)).

(** global accounting after [off] offered events *)
Definition account_ok (off : N) (o : obs) : bool :=
  (lenN (o_evs o) + o_dropped o + o_sidelen o =? off) &&
  (o_late o =? o_dropped o + o_allowed o + o_sidelen o).

Fixpoint steps_ok (ws : wstrat) (ls : lstrat) (prev : obs) (mx off : N)
         (es : list event) (os : list obs) : bool :=
  match es, os with
  | [], [] => true
  | e :: er, o :: orr =>
      step_ok ws ls prev mx e o && account_ok (off + 1) o &&
      steps_ok ws ls o (N.max mx (ets e)) (off + 1) er orr
  | _, _ => false
  end.

Definition ok (ws : wstrat) (ls : lstrat) (es : list event) (os : list obs) : bool :=
  steps_ok ws ls obs0 0 0 es os.

(** ------------------------------------------------------------------ *)
(** Wire format.  case = (wkind wparam lkind lparam ((id ts) ...)) ;
    obs list = ((wm (hist) (evs) (side) late dropped allowed sidelen) ...) *)
Definition dec_ws (k p : N) : option wstrat :=
  match k with
  | 0 => Some (WBounded p) | 1 => Some WMono | 2 => Some WCustom
  | 3 => Some (WPeriodic (negb (p =? 0)))
  | _ => None end.
Definition dec_ls (k p : N) : option lstrat :=
  match k with
  | 0 => Some LDrop | 1 => Some (LAllowed p) | 2 => Some LSide | 3 => Some LRecompute
  | _ => None end.
Definition dec_event (s : sx) : option event :=
  match s with
  | L [a; b] => match getN a, getN b with
                | Some i, Some t => Some {| eid := i; ets := t |}
                | _, _ => None end
  | _ => None end.

Definition dec_case (s : sx) : option (wstrat * lstrat * list event) :=
  match s with
  | L [wk; wp; lk; lp; L es] =>
      match getN wk, getN wp, getN lk, getN lp, mapO dec_event es with
      | Some wk, Some wp, Some lk, Some lp, Some es =>
          match dec_ws wk wp, dec_ls lk lp with
          | Some w, Some l => Some (w, l, es)
          | _, _ => None end
      | _, _, _, _, _ => None end
  | _ => None end.

Definition enc_obs (o : obs) : sx :=
  L [sxN (o_wm o); sxNs (o_hist o); sxNs (o_evs o); sxNs (o_side o);
     sxN (o_late o); sxN (o_dropped o); sxN (o_allowed o); sxN (o_sidelen o)].

Definition dec_obs (s : sx) : option obs :=
  match s with
  | L [w; h; e; sd; l; d; a; n] =>
      match getN w, getNs h, getNs e, getNs sd, getN l, getN d, getN a, getN n with
      | Some w, Some h, Some e, Some sd, Some l, Some d, Some a, Some n =>
          Some {| o_wm := w; o_hist := h; o_evs := e; o_side := sd; o_late := l;
                  o_dropped := d; o_allowed := a; o_sidelen := n |}
      | _, _, _, _, _, _, _, _ => None end
  | _ => None end.

Definition run (c : wstrat * lstrat * list event) : list obs :=
  let '(w, l, es) := c in map observe (trace w l init es).

Definition run_sx (c : sx) : sx :=
  match dec_case c with
  | Some c => L (map enc_obs (run c))
  | None => sx_bad
  end.

Definition ok_sx (c o : sx) : bool :=
  match dec_case c, o with
  | Some (w, l, es), L os =>
      match mapO dec_obs os with
      | Some os => ok w l es os
      | None => false end
  | _, _ => false
  end.
