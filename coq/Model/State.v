(** C20 — model of src/streaming/state.rs (StateStore on the File backend) with an explicit
    clock and an abstract file system, after the repair "checkpoint ids stay distinct".
    Definitions only.

    Rust items modelled:
      state.rs::StateEntry::{new, is_expired}
      state.rs::StateStore::{put, put_with_ttl, get, update, delete, len, checkpoint (File), restore (File),
                             list_checkpoints}
    The clock is the injected millisecond clock (hook verif_hooks::now_ms).  A checkpoint is the
    sequence of file-system steps the source performs, in source order:
       1 create_dir_all   2 File::create (truncate)   3 write_all   4 metadata push   5 retention cleanup
    A crash can be injected after steps 1, 2, inside 3 (empty / strict prefix / all bytes written),
    after 3, and after 4.  File contents are abstract: empty, a strict non-empty prefix, or the
    complete JSON of a snapshot.  ASSUMED (exercised by the harness on every truncation offset of
    real files, suite tag 1): a strict prefix of the JSON document never parses, the complete
    document parses back to the same map (serde_json round-trip for integer and string values).
    A checkpoint id is (clock ms, suffix) with suffix 0 printed as "checkpoint_<ms>". *)
From RRE Require Import Base.Sx.
Open Scope N_scope.

Record entry := { e_key : N; e_val : Z; e_created : N; e_ttl : option N }.
Definition snap := list (N * Z).                       (* sorted by key *)
Inductive fstate := DirOnly | FileEmpty | FilePartial | FileFull (s : snap).
Definition cid := (N * N)%type.

Record st := {
  store : list entry;
  ckpts : list cid;                     (* checkpoint metadata, oldest first *)
  fs : list (cid * fstate);             (* checkpoint directories *)
  issued : list cid;                    (* every id a checkpoint attempt used, in order *)
  now : N;
  maxck : N
}.

Definition init (mx : N) : st := {| store := []; ckpts := []; fs := []; issued := []; now := 1000; maxck := mx |}.

Definition cid_eqb (a b : cid) : bool := (fst a =? fst b) && (snd a =? snd b).
Definition expired (t : N) (e : entry) : bool :=
  match e_ttl e with Some ttl => e_created e + ttl <? t | None => false end.

Definition find_entry (s : list entry) (k : N) : option entry := find (fun e => e_key e =? k) s.
Definition del_entry (s : list entry) (k : N) : list entry := filter (fun e => negb (e_key e =? k)) s.
Definition put_entry (s : list entry) (e : entry) : list entry := del_entry s (e_key e) ++ [e].

Definition get (s : st) (k : N) : option Z :=
  match find_entry (store s) k with
  | Some e => if expired (now s) e then None else Some (e_val e)
  | None => None end.

Fixpoint insert_kv (p : N * Z) (l : snap) : snap :=
  match l with [] => [p] | q :: r => if fst p <? fst q then p :: l else q :: insert_kv p r end.
Definition snapshot (s : st) : snap :=
  fold_left (fun a e => if expired (now s) e then a else insert_kv (e_key e, e_val e) a) (store s) [].

(** suffix = one more than the highest suffix in use for this millisecond among the retained
    checkpoints; 0 (printed without suffix) when none is *)
Definition fresh_id (s : st) : cid :=
  (now s, fold_left (fun acc i => if fst i =? now s then N.max acc (snd i + 1) else acc) (ckpts s) 0).

Definition fs_get (f : list (cid * fstate)) (i : cid) : option fstate :=
  match find (fun e => cid_eqb (fst e) i) f with Some e => Some (snd e) | None => None end.
Definition fs_set (f : list (cid * fstate)) (i : cid) (x : fstate) : list (cid * fstate) :=
  filter (fun e => negb (cid_eqb (fst e) i)) f ++ [(i, x)].
Definition fs_del (f : list (cid * fstate)) (i : cid) : list (cid * fstate) :=
  filter (fun e => negb (cid_eqb (fst e) i)) f.

Inductive op :=
| Put (k : N) (v : Z)
| PutTtl (k : N) (v : Z) (ttl : N)
| Update (k : N) (v : Z)
| Delete (k : N)
| Advance (dt : N)
| Checkpoint
| Crash (step : N) (pfx : N)      (* step 1..5 ; pfx (step 3 only): 0 nothing written, 1 strict prefix, 2 all bytes *)
| Restore (j : nat).             (* restore the j-th issued id *)

(** the checkpoint procedure, stopping (Err) after crash point [c] (0 = run to completion) *)
Definition do_checkpoint (s : st) (c pfx : N) : st * bool :=
  let id := fresh_id s in
  let sn := snapshot s in
  let iss := issued s ++ [id] in
  let with_fs f := {| store := store s; ckpts := ckpts s; fs := f; issued := iss; now := now s; maxck := maxck s |} in
  (* 1 create_dir_all *)
  let f1 := match fs_get (fs s) id with Some _ => fs s | None => fs_set (fs s) id DirOnly end in
  if c =? 1 then (with_fs f1, false) else
  (* 2 File::create *)
  let f2 := fs_set f1 id FileEmpty in
  if c =? 2 then (with_fs f2, false) else
  if c =? 3 then (with_fs (match pfx with 0 => f2 | 1 => fs_set f2 id FilePartial | _ => fs_set f2 id (FileFull sn) end), false) else
  (* 3 write_all *)
  let f3 := fs_set f2 id (FileFull sn) in
  if c =? 4 then (with_fs f3, false) else
  (* 4 metadata push *)
  let ck := ckpts s ++ [id] in
  if c =? 5 then ({| store := store s; ckpts := ck; fs := f3; issued := iss; now := now s; maxck := maxck s |}, false) else
  (* 5 retention *)
  match ck with
  | old :: rest =>
      if maxck s <? lenN ck
      then ({| store := store s; ckpts := rest; fs := fs_del f3 old; issued := iss; now := now s; maxck := maxck s |}, true)
      else ({| store := store s; ckpts := ck; fs := f3; issued := iss; now := now s; maxck := maxck s |}, true)
  | [] => (with_fs f3, true)
  end.

Definition upd_store (s : st) (x : list entry) : st :=
  {| store := x; ckpts := ckpts s; fs := fs s; issued := issued s; now := now s; maxck := maxck s |}.

(** result: true = Ok *)
Definition step (s : st) (o : op) : st * bool :=
  match o with
  | Put k v => (upd_store s (put_entry (store s) {| e_key := k; e_val := v; e_created := now s; e_ttl := None |}), true)
  | PutTtl k v ttl => (upd_store s (put_entry (store s) {| e_key := k; e_val := v; e_created := now s; e_ttl := Some ttl |}), true)
  | Update k v =>
      match find_entry (store s) k with
      | Some e => if expired (now s) e then (s, false)
                  else (upd_store s (map (fun x => if e_key x =? k
                                                   then {| e_key := k; e_val := v; e_created := e_created x; e_ttl := e_ttl x |} else x) (store s)), true)
      | None => (s, false)
      end
  | Delete k => (upd_store s (del_entry (store s) k), true)
  | Advance dt => ({| store := store s; ckpts := ckpts s; fs := fs s; issued := issued s; now := now s + dt; maxck := maxck s |}, true)
  | Checkpoint => do_checkpoint s 0 0
  | Crash c p => do_checkpoint s c p
  | Restore j =>
      match nth_error (issued s) j with
      | None => (s, false)
      | Some id =>
          match fs_get (fs s) id with
          | Some (FileFull sn) =>
              (upd_store s (map (fun p => {| e_key := fst p; e_val := snd p; e_created := now s; e_ttl := None |}) sn), true)
          | _ => (s, false)
          end
      end
  end.

(** ------------------------------------------------------------------ *)
(** observation after each op (keys 0..2) *)
Definition enc_snap (s : snap) : sx := L (map (fun p => L [sxN (fst p); A (snd p)]) s).
Definition issue_index (iss : list cid) (i : cid) : N :=
  (fix go (l : list cid) (n : N) : N := match l with [] => 999 | x :: r => if cid_eqb x i then n else go r (n + 1) end) iss 0.
Definition enc_fstate (o : option fstate) : sx :=
  match o with
  | None => L [A 0] | Some DirOnly => L [A 1] | Some (FileFull s) => L [A 2; enc_snap s] | Some _ => L [A 3]
  end.
Definition observe (s : st) (res : bool) : sx :=
  L [sxB res;
     L (map (fun k => sxO A (get s k)) [0; 1; 2]);
     sxN (lenN (filter (fun e => negb (expired (now s) e)) (store s)));
     L (map (fun i => sxN (issue_index (issued s) i)) (ckpts s));
     L (map (fun i => enc_fstate (fs_get (fs s) i)) (issued s))].

Fixpoint run_from (s : st) (ops : list op) : list sx :=
  match ops with [] => [] | o :: r => let '(s', res) := step s o in observe s' res :: run_from s' r end.

(** ------------------------------------------------------------------ *)
(** Specification (no file system, no clock-derived ids): checkpoint j remembers the unexpired
    map at the moment it was taken; restoring a completed, retained checkpoint yields exactly
    that map; a crashed checkpoint restores to its complete map or fails; earlier checkpoints'
    files are never changed by later activity except by retention of the oldest. *)
Inductive cstatus := Completed | Crashed (listed : bool) | Cleaned.
Record sck := { k_snap : snap; k_status : cstatus }.
Record sst := { sstore : list entry; scks : list sck; snow : N; smax : N }.
Definition sinit (mx : N) : sst := {| sstore := []; scks := []; snow := 1000; smax := mx |}.
Definition as_st (s : sst) : st := {| store := sstore s; ckpts := []; fs := []; issued := []; now := snow s; maxck := smax s |}.

Definition listed (c : sck) : bool :=
  match k_status c with Completed => true | Crashed l => l | Cleaned => false end.
Definition listed_indices (l : list sck) : list N :=
  (fix go (l : list sck) (n : N) : list N :=
     match l with [] => [] | c :: r => (if listed c then [n] else []) ++ go r (n + 1) end) l 0.

(** retention: when more than max are listed, the oldest listed one is cleaned *)
Fixpoint clean_oldest (l : list sck) : list sck :=
  match l with
  | [] => []
  | c :: r => if listed c then {| k_snap := k_snap c; k_status := Cleaned |} :: r else c :: clean_oldest r
  end.

Definition sstep (s : sst) (o : op) : sst * bool :=
  match o with
  | Checkpoint =>
      let l := scks s ++ [{| k_snap := snapshot (as_st s); k_status := Completed |}] in
      let l' := if smax s <? lenN (listed_indices l) then clean_oldest l else l in
      ({| sstore := sstore s; scks := l'; snow := snow s; smax := smax s |}, true)
  | Crash c p =>
      ({| sstore := sstore s; scks := scks s ++ [{| k_snap := snapshot (as_st s); k_status := Crashed (5 <=? c) |}];
          snow := snow s; smax := smax s |}, false)
  | Restore j =>
      match nth_error (scks s) j with
      | Some c =>
          match k_status c with
          | Completed => ({| sstore := map (fun p => {| e_key := fst p; e_val := snd p; e_created := snow s; e_ttl := None |}) (k_snap c);
                             scks := scks s; snow := snow s; smax := smax s |}, true)
          | _ => (s, false)      (* for Crashed the monitor also accepts the complete snapshot, see [ok_from] *)
          end
      | None => (s, false)
      end
  | _ => let '(t, r) := step (as_st s) o in
         ({| sstore := store t; scks := scks s; snow := now t; smax := smax s |}, r)
  end.

(** observed pieces *)
Record pobs := { p_res : sx; p_gets : sx; p_len : sx; p_listed : sx; p_files : list sx }.
Definition dec_pobs (s : sx) : option pobs :=
  match s with
  | L [r; g; n; l; L fl] => Some {| p_res := r; p_gets := g; p_len := n; p_listed := l; p_files := fl |}
  | _ => None end.

Definition store_obs (s : sst) : sx * sx :=
  (L (map (fun k => sxO A (get (as_st s) k)) [0; 1; 2]),
   sxN (lenN (filter (fun e => negb (expired (snow s) e)) (sstore s)))).

(** is a file observation acceptable for checkpoint c ? *)
Definition file_ok (c : sck) (f : sx) : bool :=
  match k_status c with
  | Completed => sx_eqb f (L [A 2; enc_snap (k_snap c)])
  | Cleaned => sx_eqb f (L [A 0])
  | Crashed _ => sx_eqb f (L [A 1]) || sx_eqb f (L [A 3]) || sx_eqb f (L [A 2; enc_snap (k_snap c)])
  end.

Fixpoint all2 {X Y} (f : X -> Y -> bool) (a : list X) (b : list Y) : bool :=
  match a, b with [], [] => true | x :: a', y :: b' => f x y && all2 f a' b' | _, _ => false end.

Fixpoint ok_from (s : sst) (ops : list op) (os : list sx) : bool :=
  match ops, os with
  | [], [] => true
  | o :: r, ob :: orr =>
      match dec_pobs ob with
      | None => false
      | Some p =>
          let '(s1, res) := sstep s o in
          (* a crashed checkpoint may also restore to its complete snapshot *)
          let alt := match o with
                     | Restore j => match nth_error (scks s) j with
                                    | Some c => match k_status c with
                                                | Crashed _ => Some ({| sstore := map (fun p => {| e_key := fst p; e_val := snd p; e_created := snow s; e_ttl := None |}) (k_snap c);
                                                                        scks := scks s; snow := snow s; smax := smax s |}, true)
                                                | _ => None end
                                    | None => None end
                     | _ => None end in
          let good (cand : sst * bool) :=
            let '(s', rs) := cand in
            sx_eqb (p_res p) (sxB rs) && sx_eqb (p_gets p) (fst (store_obs s')) && sx_eqb (p_len p) (snd (store_obs s'))
            && sx_eqb (p_listed p) (sxNs (listed_indices (scks s'))) && all2 file_ok (scks s') (p_files p) in
          if good (s1, res) then ok_from s1 r orr
          else match alt with
               | Some cand => good cand && ok_from (fst cand) r orr
               | None => false end
      end
  | _, _ => false
  end.

(** ------------------------------------------------------------------ *)
(** wire: case (0 maxck (op ...)); op = (0 k v) put | (1 k v ttl) | (2 k v) update | (3 k) delete | (4 dt)
    | (5) checkpoint | (6 step pfx) crash | (7 j) restore.
    case (1 ...) = truncation sweep on real files: judged by the monitor only:
    observation = (len (outcome ...)) with outcome per truncation offset n = 0..len :
    0 restore failed and the store is untouched, 1 restore succeeded with the complete state, 2 anything else *)
Definition dec_op (s : sx) : option op :=
  match s with
  | L [A 0; k; A v] => option_map (fun k => Put k v) (getN k)
  | L [A 1; k; A v; t] => match getN k, getN t with Some k, Some t => Some (PutTtl k v t) | _, _ => None end
  | L [A 2; k; A v] => option_map (fun k => Update k v) (getN k)
  | L [A 3; k] => option_map Delete (getN k)
  | L [A 4; d] => option_map Advance (getN d)
  | L [A 5] => Some Checkpoint
  | L [A 6; c; p] => match getN c, getN p with Some c, Some p => Some (Crash c p) | _, _ => None end
  | L [A 7; j] => option_map (fun j => Restore (N.to_nat j)) (getN j)
  | _ => None end.

Definition run_sx (c : sx) : sx :=
  match c with
  | L [A 0; mx; L ops] => match getN mx, mapO dec_op ops with
                          | Some mx, Some ops => L (run_from (init mx) ops) | _, _ => sx_bad end
  | L (A 1 :: _) => L [A (-998)]
  | _ => sx_bad end.

Definition ok_sx (c o : sx) : bool :=
  match c, o with
  | L [A 0; mx; L ops], L os => match getN mx, mapO dec_op ops with
                                | Some mx, Some ops => ok_from (sinit mx) ops os | _, _ => false end
  | L (A 1 :: _), L [len; L outs] =>
      match getN len, getNs (L outs) with
      | Some len, Some outs =>
          (lenN outs =? len + 1) && forallb (fun x => (x =? 0) || (x =? 1)) outs
          && (match rev outs with last :: _ => last =? 1 | [] => false end)
      | _, _ => false end
  | _, _ => false end.
