(** C01 — the typed core of GRL as a syntax tree, its printer (the text handed to the real parser), the
    parser's translation of that text into the Rule structure ([compile]: parse_single_condition's
    Field / arithmetic-Test split, parse_value, parse_array_literal, parse_action_statement for
    assignments), the documented meaning [Sem] of conditions and assignments on the tree, the engine's
    pass loop, and the wire format.  Definitions only. *)
From RRE Require Import Base.Sx Base.Float Base.Num Model.ExprShape Model.Forward Generated.Consts.
From Coq Require Import Floats.SpecFloat.
Open Scope Z_scope.

(** ---------- syntax of the typed core ---------- *)
Inductive lit := LInt (z : Z) | LNum (txt : str) | LStr (s : str) | LBool (b : bool) | LNull | LArr (l : list lit).
Inductive aexp := ALit (l : lit) | AField (p : list str) | ABin (op : Z) (a b : aexp) | APar (a : aexp).
Inductive scond := SCmp (l : aexp) (o : oper) (r : aexp) | SAnd (a b : scond) | SOr (a b : scond) | SNot (a : scond).
Record srule := { sr_sal : Z; sr_cond : scond; sr_sets : list (list str * aexp) }.

(** ---------- printer ---------- *)
Fixpoint join_with (sep : str) (l : list str) : str :=
  match l with [] => [] | [x] => x | x :: r => x ++ sep ++ join_with sep r end.
Definition join_dot (p : list str) : str := join_with [46] p.

Definition s_true : str := [116; 114; 117; 101].
Definition s_false : str := [102; 97; 108; 115; 101].

Fixpoint pr_lit (l : lit) : str :=
  match l with
  | LInt z => show_Z z
  | LNum t => t
  | LStr s => 34 :: s ++ [34]
  | LBool b => if b then s_true else s_false
  | LNull => s_null
  | LArr l => 91 :: join_with [44; 32] ((fix go (l : list lit) : list str := match l with [] => [] | x :: r => pr_lit x :: go r end) l) ++ [93]
  end.

Fixpoint pr (e : aexp) : str :=
  match e with
  | ALit l => pr_lit l
  | AField p => join_dot p
  | ABin op a b => pr a ++ [32; op; 32] ++ pr b
  | APar a => 40 :: pr a ++ [41]
  end.

Definition op_str (o : oper) : str :=
  match o with
  | OEq => [61; 61] | ONe => [33; 61] | OGt => [62] | OGe => [62; 61] | OLt => [60] | OLe => [60; 61]
  | OContains => [99; 111; 110; 116; 97; 105; 110; 115]
  | ONotContains => [110; 111; 116; 95; 99; 111; 110; 116; 97; 105; 110; 115]
  | OStartsWith => [115; 116; 97; 114; 116; 115; 87; 105; 116; 104]
  | OEndsWith => [101; 110; 100; 115; 87; 105; 116; 104]
  | OMatches => [109; 97; 116; 99; 104; 101; 115]
  | OIn => [105; 110]
  end.

Definition compound (c : scond) : bool := match c with SAnd _ _ | SOr _ _ => true | _ => false end.
Definition parens (s : str) : str := 40 :: s ++ [41].

Fixpoint pr_cond (c : scond) : str :=
  match c with
  | SCmp l o r => pr l ++ [32] ++ op_str o ++ [32] ++ pr r
  | SAnd a b => (if compound a then parens (pr_cond a) else pr_cond a) ++ [32; 38; 38; 32]
                ++ (if compound b then parens (pr_cond b) else pr_cond b)
  | SOr a b => (if compound a then parens (pr_cond a) else pr_cond a) ++ [32; 124; 124; 32]
               ++ (if compound b then parens (pr_cond b) else pr_cond b)
  | SNot a => 33 :: parens (pr_cond a)
  end.

(** ---------- the parser's value classification (grl.rs parse_value / parse_array_literal) ---------- *)
Definition is_alpha (c : Z) : bool := ((65 <=? c) && (c <=? 90)) || ((97 <=? c) && (c <=? 122)).
Definition is_alnum (c : Z) : bool := is_alpha c || is_digit c.
(** ASCII instance of is_identifier (char::is_alphabetic / is_alphanumeric agree with it on ASCII) *)
Definition is_identifier (s : str) : bool :=
  match s with [] => false | c :: _ => (is_alpha c || (c =? 95)) && forallb (fun c => is_alnum c || (c =? 95)) s end.
Definition has_arith (s : str) : bool := existsb (fun c => memc c [43; 45; 42; 47; 37]) s.
Definition is_expression (s : str) : bool := has_arith s && (memc 46 s || memc 32 s).

(** the comma split of parse_array_literal: quotes protect commas, brackets do not *)
Fixpoint split_commas (s : str) (inq : bool) (q : Z) (cur : str) : list str :=
  let flush (cur : str) := let t := trim ws_unicode (rev cur) in match t with [] => [] | _ => [t] end in
  match s with
  | [] => flush cur
  | c :: r =>
      if ((c =? 34) || (c =? 39)) && negb inq then split_commas r true c (c :: cur)
      else if inq && (c =? q) then split_commas r false q (c :: cur)
      else if (c =? 44) && negb inq then flush cur ++ split_commas r inq q []
      else split_commas r inq q (c :: cur)
  end.

Definition last_is (s : str) (c : Z) : bool := match rev s with d :: _ => d =? c | [] => false end.
Definition first_is (s : str) (c : Z) : bool := match s with d :: _ => d =? c | [] => false end.
Definition strip_ends (s : str) : str := match s with _ :: r => rev (tl (rev r)) | [] => [] end.

Fixpoint parse_value (fuel : nat) (s : str) : value :=
  let t := trim ws_unicode s in
  match fuel with
  | O => VStr t
  | S fu =>
      if first_is t 91 && last_is t 93 then
        let inner := trim ws_unicode (strip_ends t) in
        match inner with
        | [] => VArr []
        | _ => VArr (map (parse_value fu) (split_commas inner false 32 []))
        end
      else
        let dq := quoted t 34 in let sq := quoted t 39 in
        let inner := strip_ends t in
        if (2 <=? blen t) && ((dq && negb (memc 34 inner)) || (sq && negb (memc 39 inner))) then VStr inner
        else if str_eqb (map lower t) s_true then VBool true
        else if str_eqb (map lower t) s_false then VBool false
        else if str_eqb (map lower t) s_null then VNull
        else match parse_i64 t with
             | Some i => VInt i
             | None => match parse_f64 t with
                       | Some x => VNum x
                       | None => if is_expression t then VExpr t
                                 else if memc 46 t then VExpr t
                                 else if is_identifier t then VExpr t
                                 else VStr t
                       end
             end
  end.
Definition parse_val (s : str) : value := parse_value (S (length s)) s.

(** ---------- compile: what GRLParser yields for the printed rule ---------- *)
(** left-hand sides the condition regex captures whole: a field followed by (op operand)*, operands being
    fields or unsigned numerals *)
Definition unsigned_num (t : str) : bool := match t with [] => false | _ => forallb (fun c => is_digit c || (c =? 46)) t end.
Fixpoint lhs_atoms_ok (e : aexp) : bool :=
  match e with
  | AField _ => true
  | ALit (LInt z) => 0 <=? z
  | ALit (LNum t) => unsigned_num t
  | ABin _ a b => lhs_atoms_ok a && lhs_atoms_ok b
  | _ => false
  end.
Fixpoint leftmost_field (e : aexp) : bool :=
  match e with AField _ => true | ABin _ a _ => leftmost_field a | _ => false end.
Definition lhs_simple (e : aexp) : bool := lhs_atoms_ok e && leftmost_field e.

(** left-hand sides outside the condition pattern (repair of the parser: parse_single_condition, split_arithmetic_comparison): arithmetic
    with parentheses - the documented `(Order.total - Order.discount) * 1.1 > 1000` - or starting with a literal; with one of the six symbolic
    comparison operators the whole text is a test condition *)
Definition has_arith_char (t : str) : bool := existsb (fun c => memc c t) [43; 45; 42; 47; 37].
Definition starts_with_field (t : str) : bool := match t with c :: _ => ((65 <=? c) && (c <=? 90)) || ((97 <=? c) && (c <=? 122)) || (c =? 95) | [] => false end.
Definition lhs_wide (l : aexp) : bool := has_arith_char (pr l) && (memc 40 (pr l) || negb (starts_with_field (pr l))).
Definition sym_cmp (o : oper) : bool := match o with OEq | ONe | OGt | OGe | OLt | OLe => true | _ => false end.

Definition compile_cmp (l : aexp) (o : oper) (r : aexp) : option condition :=
  if lhs_simple l then
    match l with
    | AField p => Some {| c_expr := CField (join_dot p); c_op := o; c_val := parse_val (pr r) |}
    | _ => Some {| c_expr := CTest (pr l ++ [32] ++ op_str o ++ [32] ++ trim ws_unicode (pr r)); c_op := OEq; c_val := VBool true |}
    end
  else if lhs_wide l && sym_cmp o then
    Some {| c_expr := CTest (pr l ++ [32] ++ op_str o ++ [32] ++ trim ws_unicode (pr r)); c_op := OEq; c_val := VBool true |}
  else None.

Fixpoint compile_cond (c : scond) : option cgroup :=
  match c with
  | SCmp l o r => match compile_cmp l o r with Some x => Some (GSingle x) | None => None end
  | SAnd a b => match compile_cond a, compile_cond b with Some x, Some y => Some (GAnd x y) | _, _ => None end
  | SOr a b => match compile_cond a, compile_cond b with Some x, Some y => Some (GOr x y) | _, _ => None end
  | SNot a => match compile_cond a with Some x => Some (GNot x) | None => None end
  end.

Definition compile_rule (r : srule) : option rule :=
  match compile_cond (sr_cond r) with
  | Some g => Some {| r_cond := g; r_sets := map (fun '(p, e) => (join_dot p, parse_val (pr e))) (sr_sets r) |}
  | None => None
  end.

(** ---------- the documented meaning ---------- *)
Definition slookup (f : facts) (p : str) : value :=
  match get_nested f p with Some v => v | None => match fget f p with Some v => v | None => VNull end end.

Fixpoint den_lit (l : lit) : option value :=
  match l with
  | LInt z => Some (VInt z)
  | LNum t => match parse_f64 t with Some x => Some (VNum x) | None => None end
  | LStr s => Some (VStr s)
  | LBool b => Some (VBool b)
  | LNull => Some VNull
  | LArr l => match (fix go (l : list lit) : option (list value) :=
                       match l with [] => Some [] | x :: r => match den_lit x, go r with Some v, Some vs => Some (v :: vs) | _, _ => None end end) l with
              | Some vs => Some (VArr vs) | None => None end
  end.

Definition num_of (v : value) : option f64 := match v with VInt i => Some (f_of_Z i) | VNum n => Some n | _ => None end.
Definition both_int (x y : value) : bool := match x, y with VInt _, VInt _ => true | _, _ => false end.

(** arithmetic: two integers are computed exactly (undefined on overflow and on division or remainder
    by zero; an inexact quotient is the binary64 quotient); otherwise binary64 on numbers; + concatenates
    two strings (undefined when both look like numbers); everything else is undefined *)
Definition sem_arith (op : Z) (x y : value) : option value :=
  match x, y with
  | VInt a, VInt b =>
      match exact_int a op b with
      | Some z => Some (VInt z)
      | None => if (op =? 47) && negb (b =? 0) && negb (Z.rem a b =? 0) && negb (feqb (f_of_Z b) fzero)
                then Some (VNum (fdiv (f_of_Z a) (f_of_Z b))) else None
      end
  | _, _ =>
      match num_of x, num_of y with
      | Some a, Some b =>
          if op =? 43 then Some (VNum (fadd a b)) else if op =? 45 then Some (VNum (fsub a b)) else if op =? 42 then Some (VNum (fmul a b))
          else if op =? 47 then (if feqb b fzero then None else Some (VNum (fdiv a b)))
          else if op =? 37 then Some (VNum (ffmod a b)) else None
      | _, _ => match x, y with
                | VStr a, VStr b => if (op =? 43) && negb (match parse_f64 a, parse_f64 b with Some _, Some _ => true | _, _ => false end)
                                    then Some (VStr (a ++ b)) else None
                | _, _ => None end
      end
  end.

(** inside arithmetic and in an assignment a field must exist (exact key first, then object path, as
    the expression evaluator looks it up); a comparison operand that is just a field reads null when
    the field is missing (left-hand side: object path first, then exact key, as the engine reads it) *)
Definition sget (f : facts) (p : str) : option value :=
  match fget f p with Some v => Some v | None => get_nested f p end.
Definition rlookup (f : facts) (p : str) : value := match sget f p with Some v => v | None => VNull end.

Fixpoint den (f : facts) (e : aexp) : option value :=
  match e with
  | ALit l => den_lit l
  | AField p => sget f (join_dot p)
  | APar a => den f a
  | ABin op a b => match den f a, den f b with Some x, Some y => sem_arith op x y | _, _ => None end
  end.

(** retract(X) marks X: every field comparison on a retracted object is false *)
Definition retracted (f : facts) (p : list str) : bool :=
  match fget f (retracted_key (first_part (join_dot p))) with Some (VBool true) => true | _ => false end.

(** equality: defined within a kind; undefined across the coercible pairs; false across unrelated kinds *)
Fixpoint sem_eq (x y : value) {struct x} : option bool :=
  match x, y with
  | VNull, VNull => Some true
  | VNull, VStr s | VStr s, VNull => if str_eqb s s_null then None else Some false
  | VNull, (VExpr _ | VObj _) | (VExpr _ | VObj _), VNull => None
  | VNull, _ | _, VNull => Some false
  | VInt a, VInt b => Some (a =? b)
  | VNum a, VNum b => Some (feqb a b)
  | VStr a, VStr b => Some (str_eqb a b)
  | VBool a, VBool b => Some (Bool.eqb a b)
  | VArr a, VArr b =>
      (fix go (a b : list value) : option bool :=
         match a, b with
         | [], [] => Some true
         | u :: a', v :: b' => match sem_eq u v, go a' b' with Some p, Some q => Some (p && q) | _, _ => None end
         | _, _ => Some false end) a b
  | VInt _, VNum _ | VNum _, VInt _ => None
  | VStr _, (VInt _ | VNum _) | (VInt _ | VNum _), VStr _ => None
  | VBool _, (VInt _ | VNum _) | (VInt _ | VNum _), VBool _ => None
  | (VExpr _ | VObj _), _ | _, (VExpr _ | VObj _) => None
  | _, _ => Some false
  end.

Fixpoint sem_mem (x : value) (l : list value) : option bool :=
  match l with
  | [] => Some false
  | y :: r => match sem_eq y x, sem_mem x r with Some p, Some q => Some (p || q) | _, _ => None end
  end.

Definition sem_cmp (o : oper) (x y : value) : option bool :=
  match o with
  | OEq => sem_eq x y
  | ONe => match sem_eq x y with Some b => Some (negb b) | None => None end
  | OGt | OGe | OLt | OLe =>
      match x, y with
      | VNull, _ | _, VNull => Some false
      | VInt a, VInt b => Some (match o with OGt => a >? b | OGe => a >=? b | OLt => a <? b | _ => a <=? b end)
      | _, _ => match num_of x, num_of y with
                | Some a, Some b => Some (match o with OGt => fltb b a | OGe => fleb b a | OLt => fltb a b | _ => fleb a b end)
                | _, _ => None end
      end
  | OContains => match x, y with
                 | VStr a, VStr b => Some (str_contains a b)
                 | VArr l, v => sem_mem v l
                 | VNull, _ => Some false
                 | _, _ => None end
  | OStartsWith => match x, y with VStr a, VStr b => Some (str_starts a b) | VNull, _ => Some false | _, _ => None end
  | OEndsWith => match x, y with VStr a, VStr b => Some (str_ends a b) | VNull, _ => Some false | _, _ => None end
  | OIn => match y with VArr l => sem_mem x l | _ => None end
  | _ => None
  end.

(** [strict]: a string literal on the right-hand side that happens to name an existing fact or field
    path makes the comparison undefined (the engine reads the fact instead: known finding
    C01-string-literal-names-a-fact).  The monitor uses strict = false (the literal is a literal). *)
Definition names_fact (f : facts) (r : aexp) : bool :=
  match r with
  | ALit (LStr s) => match get_nested f s, fget f s with None, None => false | _, _ => true end
  | _ => false end.

Fixpoint den_cond (strict : bool) (f : facts) (c : scond) : option bool :=
  match c with
  | SCmp l o r =>
      match l with
      | AField p =>
          if retracted f p then Some false
          else if strict && names_fact f r then None
          else match (match r with AField q => Some (rlookup f (join_dot q)) | _ => den f r end) with
               | Some y => sem_cmp o (slookup f (join_dot p)) y
               | None => None end
      | _ => match den f l, den f r with Some x, Some y => sem_cmp o x y | _, _ => None end
      end
  | SAnd a b => match den_cond strict f a, den_cond strict f b with
                | Some x, Some y => Some (x && y)
                | Some false, None | None, Some false => Some false      (* one false conjunct decides *)
                | _, _ => None end
  | SOr a b => match den_cond strict f a, den_cond strict f b with
               | Some x, Some y => Some (x || y)
               | Some true, None | None, Some true => Some true         (* one true disjunct decides *)
               | _, _ => None end
  | SNot a => match den_cond strict f a with Some x => Some (negb x) | None => None end
  end.

(** ---------- well-formed trees and the tree-level evaluator (used by the theorems) ---------- *)
Notation ws := ws_unicode.

Definition plain (c : Z) : bool :=
  negb (ws c) && negb (is_arith c) && negb (c =? 40) && negb (c =? 41) && negb (c =? 34) && negb (c =? 39).

Definition is_addop (op : Z) : bool := (op =? 43) || (op =? 45).
Definition is_mulop (op : Z) : bool := (op =? 42) || (op =? 47) || (op =? 37).

(** an atom's text: plain characters; or a minus sign followed by plain characters; or a quoted string
    without its own quote character inside *)
Definition atom_text_ok (t : str) : bool :=
  match t with
  | [] => false
  | c :: r => forallb plain t
              || ((c =? 45) && match r with [] => false | _ => forallb plain r end)
              || (((c =? 34) || (c =? 39)) && match rev r with d :: m => (d =? c) && negb (memc c m) | [] => false end)
  end.

Definition top_add (e : aexp) : bool := match e with ABin op _ _ => is_addop op | _ => false end.
Definition is_bin (e : aexp) : bool := match e with ABin _ _ _ => true | _ => false end.

(** trees whose printed text parses back to themselves: the right operand of + - has no top-level + -,
    the left operand of * / % has none either and its right operand is an atom or parenthesised *)
Fixpoint wf (e : aexp) : bool :=
  match e with
  | ALit l => atom_text_ok (pr_lit l)
  | AField p => atom_text_ok (join_dot p)
  | APar a => wf a
  | ABin op a b => wf a && wf b && (if is_addop op then negb (top_add b) else is_mulop op && negb (top_add a) && negb (is_bin b))
  end.

(** the tree-level evaluator: leaves as the code reads them, operators by apply_operator *)
Fixpoint meval (f : facts) (e : aexp) : eres :=
  match e with
  | ALit l => eleaf f (pr_lit l)
  | AField p => eleaf f (join_dot p)
  | APar a => meval f a
  | ABin op a b => match meval f a with
                   | EOk x => match meval f b with EOk y => apply_operator x op y | r => r end
                   | r => r end
  end.

(** ---------- the typed core: static conditions on a rule, each decidable by evaluating the printed atom ---------- *)
(** conditions on the atoms of an arithmetic expression, decidable by evaluation on each atom's text:
    a literal is read back as its value; a field name is not read as a literal *)
Fixpoint atoms_ok (e : aexp) : Prop :=
  match e with
  | ALit l => exists v, den_lit l = Some v /\ eleaf [] (pr_lit l) = EOk v
  | AField p => eleaf [] (join_dot p) = EErr
  | APar a => atoms_ok a
  | ABin _ a b => atoms_ok a /\ atoms_ok b
  end.

Definition cmpc (c : Z) : bool := (c =? 60) || (c =? 61) || (c =? 62) || (c =? 33).
Definition nocmp (s : str) : bool := forallb (fun c => negb (cmpc c)) s.
Definition is_cmp6 (o : oper) : bool := match o with OEq | ONe | OGt | OGe | OLt | OLe => true | _ => false end.

Definition rhs_ok (r : aexp) : Prop :=
  match r with
  | ALit l => exists v, den_lit l = Some v /\ parse_val (pr_lit l) = v
  | AField q => atom_text_ok (join_dot q) = true /\ eleaf [] (join_dot q) = EErr
                /\ parse_val (join_dot q) = VExpr (join_dot q) /\ forallb field_char (join_dot q) = true
  | _ => wf r = true /\ atoms_ok r /\ parse_val (pr r) = VExpr (pr r)
  end.

Definition ctest_rhs_ok (r : aexp) : Prop :=
  (exists z, r = ALit (LInt z) /\ parse_i64 (pr r) = Some z)
  \/ (exists t x, r = ALit (LNum t) /\ parse_i64 t = None /\ parse_f64 t = Some x)
  \/ (parse_i64 (pr r) = None /\ parse_f64 (pr r) = None).

Definition cmp_ok (l : aexp) (o : oper) (r : aexp) : Prop :=
  match l with
  | AField p => rhs_ok r
  | _ => lhs_simple l = true /\ wf l = true /\ atoms_ok l /\ is_cmp6 o = true /\ wf r = true /\ atoms_ok r /\ ctest_rhs_ok r
         /\ nocmp (pr l) = true /\ nocmp (pr r) = true /\ balq (pr l) = true
  end.

Fixpoint cond_ok (c : scond) : Prop :=
  match c with
  | SCmp l o r => cmp_ok l o r
  | SAnd a b | SOr a b => cond_ok a /\ cond_ok b
  | SNot a => cond_ok a
  end.

Definition rule_ok (r : srule) : Prop := cond_ok (sr_cond r) /\ Forall (fun pe => rhs_ok (snd pe)) (sr_sets r).


(** ---------- one consideration, in both readings ---------- *)
(** SAbort: the run ends with an error; the facts are those at the point of failure (assignments of the
    failing rule made before the failing one stay) *)
Inductive sres := SFire (f : facts) | SNoFire | SAbort (k : Z) (f : facts).

Definition model_step (f : facts) (r : rule) : sres :=
  match consider f r with
  | ROk true f' => SFire f'
  | ROk false _ => SNoFire
  | RErr f' => SAbort 1 f'
  | RPanicked => SAbort 2 []
  end.

(** None: the documented semantics does not define this consideration *)
Definition sem_step (strict : bool) (f : facts) (r : srule) : option sres :=
  match den_cond strict f (sr_cond r) with
  | None => None
  | Some false => Some SNoFire
  | Some true =>
      (fix go (f : facts) (sets : list (list str * aexp)) : option sres :=
         match sets with
         | [] => Some (SFire f)
         | (p, e) :: rest => match den f e with Some v => go (assign f (join_dot p) v) rest | None => None end
         end) f (sr_sets r)
  end.

(** ---------- the pass loop of execute_at_time for no-loop rules in salience order ---------- *)
Section Loop.
Context {R : Type}.
Variable step : facts -> R -> option sres.

Record lstate := { l_f : facts; l_fired : list Z; l_log : list (Z * facts); l_nev : Z; l_nfired : Z }.

(** result of a pass: None = undefined (semantic reading only); Some (state, abort code or 0, fired-any) *)
Fixpoint pass (rs : list (Z * R)) (s : lstate) (any : bool) : option (lstate * Z * bool) :=
  match rs with
  | [] => Some (s, 0, any)
  | (i, r) :: rest =>
      if existsb (Z.eqb i) (l_fired s) then pass rest s any
      else
        let s1 := {| l_f := l_f s; l_fired := l_fired s; l_log := l_log s; l_nev := l_nev s + 1; l_nfired := l_nfired s |} in
        match step (l_f s) r with
        | None => None
        | Some SNoFire => pass rest s1 any
        | Some (SAbort k f') => Some ({| l_f := f'; l_fired := l_fired s; l_log := l_log s; l_nev := l_nev s + 1; l_nfired := l_nfired s |}, k, any)
        | Some (SFire f') =>
            pass rest {| l_f := f'; l_fired := i :: l_fired s; l_log := l_log s ++ [(i, f')]; l_nev := l_nev s + 1; l_nfired := l_nfired s + 1 |} true
        end
  end.

Fixpoint cycles (fuel : nat) (rs : list (Z * R)) (s : lstate) (n : Z) : option (lstate * Z * Z) :=
  match fuel with
  | O => Some (s, 0, n)
  | S fu =>
      match pass rs s false with
      | None => None
      | Some (s', k, any) =>
          if negb (k =? 0) then Some (s', k, n + 1)
          else if any then cycles fu rs s' (n + 1) else Some (s', 0, n + 1)
      end
  end.

Definition run_rules (rs : list (Z * R)) (f : facts) : option (lstate * Z * Z) :=
  cycles (N.to_nat engine_default_max_cycles) rs {| l_f := f; l_fired := []; l_log := []; l_nev := 0; l_nfired := 0 |} 0.
End Loop.

(** rules in descending salience (distinct saliences in the generated cases): insertion sort, stable *)
Fixpoint ins_sal {T} (x : Z * Z * T) (l : list (Z * Z * T)) : list (Z * Z * T) :=
  match l with
  | [] => [x]
  | y :: r => if (fst (fst y)) <? (fst (fst x)) then x :: l else y :: ins_sal x r
  end.
Definition by_salience {T} (l : list (Z * Z * T)) : list (Z * T) :=
  map (fun '(_, i, r) => (i, r)) (fold_left (fun acc x => ins_sal x acc) l []).

Fixpoint index_from {T} (i : Z) (l : list T) : list (Z * T) := match l with [] => [] | x :: r => (i, x) :: index_from (i + 1) r end.

(** ---------- wire format ---------- *)
Fixpoint str_ltb (a b : str) : bool :=
  match a, b with
  | [], [] => false | [], _ :: _ => true | _ :: _, [] => false
  | x :: a', y :: b' => (x <? y) || ((x =? y) && str_ltb a' b')
  end.
Fixpoint ins_key {T} (k : str) (v : T) (l : list (str * T)) : list (str * T) :=
  match l with [] => [(k, v)] | (k', v') :: r => if str_ltb k k' then (k, v) :: l else (k', v') :: ins_key k v r end.
Definition sort_keys {T} (l : list (str * T)) : list (str * T) := fold_left (fun acc '(k, v) => ins_key k v acc) l [].

Fixpoint enc_val (v : value) : sx :=
  match v with
  | VInt z => L [A 0; A z]
  | VNum x => L [A 1; A (bits_of_f x)]
  | VStr s => L [A 2; L (map A s)]
  | VBool b => L [A 3; sxB b]
  | VNull => L [A 4]
  | VArr l => L [A 5; L ((fix go (l : list value) : list sx := match l with [] => [] | x :: r => enc_val x :: go r end) l)]
  | VObj fs => L [A 6; L (map (fun '(k, s) => L [L (map A k); s])
                          (sort_keys ((fix go (l : list (str * value)) : list (str * sx) :=
                                         match l with [] => [] | (k, x) :: r => (k, enc_val x) :: go r end) fs)))]
  | VExpr s => L [A 7; L (map A s)]
  end.
Definition enc_facts (f : facts) : sx := L (map (fun '(k, v) => L [L (map A k); enc_val v]) (sort_keys f)).

Definition op_code (o : oper) : Z :=
  match o with OEq => 0 | ONe => 1 | OGt => 2 | OGe => 3 | OLt => 4 | OLe => 5 | OContains => 6 | ONotContains => 7
             | OStartsWith => 8 | OEndsWith => 9 | OMatches => 10 | OIn => 11 end.
Definition op_of_code (z : Z) : option oper :=
  match z with 0 => Some OEq | 1 => Some ONe | 2 => Some OGt | 3 => Some OGe | 4 => Some OLt | 5 => Some OLe | 6 => Some OContains
             | 8 => Some OStartsWith | 9 => Some OEndsWith | 11 => Some OIn | _ => None end.

Fixpoint enc_group (g : cgroup) : sx :=
  match g with
  | GSingle c => match c_expr c with
                 | CField n => L [A 0; L [A 0; L (map A n)]; A (op_code (c_op c)); enc_val (c_val c)]
                 | CTest n => L [A 0; L [A 1; L (map A n)]]
                 end
  | GAnd a b => L [A 1; enc_group a; enc_group b]
  | GOr a b => L [A 2; enc_group a; enc_group b]
  | GNot a => L [A 3; enc_group a]
  end.
Definition enc_rule (sal : Z) (r : rule) : sx :=
  L [A sal; enc_group (r_cond r); L (map (fun '(p, v) => L [L (map A p); enc_val v]) (r_sets r))].

Fixpoint dec_lit (s : sx) : option lit :=
  match s with
  | L [A 0; A z] => Some (LInt z)
  | L [A 1; t] => match getZs t with Some t => Some (LNum t) | None => None end
  | L [A 2; t] => match getZs t with Some t => Some (LStr t) | None => None end
  | L [A 3; b] => match getB b with Some b => Some (LBool b) | None => None end
  | L [A 4] => Some LNull
  | L [A 5; L l] => match (fix go (l : list sx) : option (list lit) :=
                             match l with [] => Some [] | x :: r => match dec_lit x, go r with Some v, Some vs => Some (v :: vs) | _, _ => None end end) l with
                    | Some vs => Some (LArr vs) | None => None end
  | _ => None
  end.

Fixpoint dec_aexp (s : sx) : option aexp :=
  match s with
  | L [A 0; l] => match dec_lit l with Some l => Some (ALit l) | None => None end
  | L [A 1; L p] => match mapO getZs p with Some p => Some (AField p) | None => None end
  | L [A 2; A op; a; b] => match dec_aexp a, dec_aexp b with Some a, Some b => Some (ABin op a b) | _, _ => None end
  | L [A 3; a] => match dec_aexp a with Some a => Some (APar a) | None => None end
  | _ => None
  end.

Fixpoint dec_cond (s : sx) : option scond :=
  match s with
  | L [A 0; l; A o; r] => match dec_aexp l, op_of_code o, dec_aexp r with Some l, Some o, Some r => Some (SCmp l o r) | _, _, _ => None end
  | L [A 1; a; b] => match dec_cond a, dec_cond b with Some a, Some b => Some (SAnd a b) | _, _ => None end
  | L [A 2; a; b] => match dec_cond a, dec_cond b with Some a, Some b => Some (SOr a b) | _, _ => None end
  | L [A 3; a] => match dec_cond a with Some a => Some (SNot a) | None => None end
  | _ => None
  end.

Definition dec_set (s : sx) : option (list str * aexp) :=
  match s with
  | L [L p; e] => match mapO getZs p, dec_aexp e with Some p, Some e => Some (p, e) | _, _ => None end
  | _ => None end.
Definition dec_rule (s : sx) : option srule :=
  match s with
  | L [A sal; c; L sets] => match dec_cond c, mapO dec_set sets with
                            | Some c, Some sets => Some {| sr_sal := sal; sr_cond := c; sr_sets := sets |}
                            | _, _ => None end
  | _ => None end.

Fixpoint dec_val (s : sx) : option value :=
  match s with
  | L [A 0; A z] => Some (VInt z)
  | L [A 1; A b] => Some (VNum (f_of_bits b))
  | L [A 2; t] => match getZs t with Some t => Some (VStr t) | None => None end
  | L [A 3; b] => match getB b with Some b => Some (VBool b) | None => None end
  | L [A 4] => Some VNull
  | L [A 5; L l] => match (fix go (l : list sx) : option (list value) :=
                             match l with [] => Some [] | x :: r => match dec_val x, go r with Some v, Some vs => Some (v :: vs) | _, _ => None end end) l with
                    | Some vs => Some (VArr vs) | None => None end
  | L [A 6; L l] => match (fix go (l : list sx) : option (list (str * value)) :=
                             match l with
                             | [] => Some []
                             | L [k; x] :: r => match getZs k, dec_val x, go r with Some k, Some v, Some vs => Some ((k, v) :: vs) | _, _, _ => None end
                             | _ => None end) l with
                    | Some vs => Some (VObj vs) | None => None end
  | _ => None
  end.
Definition dec_facts (s : sx) : option facts :=
  match s with
  | L l => mapO (fun x => match x with L [k; v] => match getZs k, dec_val v with Some k, Some v => Some (k, v) | _, _ => None end | _ => None end) l
  | _ => None end.

(** (firings with the facts after each, result, and what a second, plain `execute` run on the same input
    returns: its result and the facts at the end) *)
Definition enc_run (r : option (lstate * Z * Z)) : sx :=
  match r with
  | None => L [A (-1)]
  | Some (s, k, n) =>
      let res := if k =? 0 then L [A 0; A n; A (l_nev s); A (l_nfired s)] else L [A 1; A k] in
      L [L (map (fun '(i, f) => L [A i; enc_facts f]) (l_log s)); res; L [res; enc_facts (l_f s)]]
  end.

Definition dec_case (c : sx) : option (list srule * facts) :=
  match c with
  | L [L rs; f] => match mapO dec_rule rs, dec_facts f with Some rs, Some f => Some (rs, f) | _, _ => None end
  | _ => None end.

Definition compiled (rs : list srule) : option (list (Z * rule)) :=
  mapO (fun r => match compile_rule r with Some x => Some (sr_sal r, x) | None => None end) rs.

Definition sorted_model (crs : list (Z * rule)) : list (Z * rule) :=
  by_salience (map (fun '(i, (sal, r)) => (sal, i, r)) (index_from 0 crs)).
Definition sorted_spec (rs : list srule) : list (Z * srule) :=
  by_salience (map (fun '(i, r) => (sr_sal r, i, r)) (index_from 0 rs)).

(** model prediction: (parsed rules, firings with the facts after each, result) *)
Definition run_sx (c : sx) : sx :=
  match dec_case c with
  | Some (rs, f) =>
      match compiled rs with
      | Some crs =>
          match enc_run (run_rules (fun f r => Some (model_step f r)) (sorted_model crs) f) with
          | L [log; res; fin] => L [L (map (fun '(sal, r) => enc_rule sal r) crs); log; res; fin]
          | x => x end
      | None => sx_bad end
  | None => sx_bad end.

(** boolean counterparts of the static conditions, used only to COUNT how many generated cases lie
    within the hypotheses of the run theorem (value equality is compared on the wire encoding) *)
Definition val_same (a b : value) : bool := sx_eqb (enc_val a) (enc_val b).
Definition eres_is (r : eres) (v : value) : bool := match r with EOk x => val_same x v | _ => false end.
Definition is_eerr (r : eres) : bool := match r with EErr => true | _ => false end.
Definition is_vexpr_of (v : value) (t : str) : bool := match v with VExpr s => str_eqb s t | _ => false end.
Fixpoint atoms_okb (e : aexp) : bool :=
  match e with
  | ALit l => match den_lit l with Some v => eres_is (eleaf [] (pr_lit l)) v | None => false end
  | AField p => is_eerr (eleaf [] (join_dot p))
  | APar a => atoms_okb a
  | ABin _ a b => atoms_okb a && atoms_okb b
  end.
Definition rhs_okb (r : aexp) : bool :=
  match r with
  | ALit l => match den_lit l with Some v => val_same (parse_val (pr_lit l)) v | None => false end
  | AField q => atom_text_ok (join_dot q) && is_eerr (eleaf [] (join_dot q)) && is_vexpr_of (parse_val (join_dot q)) (join_dot q)
                && forallb field_char (join_dot q)
  | _ => wf r && atoms_okb r && is_vexpr_of (parse_val (pr r)) (pr r)
  end.
Definition is_none {T} (o : option T) : bool := match o with None => true | Some _ => false end.
Definition ctest_rhs_okb (r : aexp) : bool :=
  (match r with ALit (LInt z) => match parse_i64 (pr r) with Some z' => z' =? z | None => false end | _ => false end)
  || (match r with ALit (LNum t) => is_none (parse_i64 t) && negb (is_none (parse_f64 t)) | _ => false end)
  || (is_none (parse_i64 (pr r)) && is_none (parse_f64 (pr r))).
Definition cmp_okb (l : aexp) (o : oper) (r : aexp) : bool :=
  match l with
  | AField p => rhs_okb r
  | _ => lhs_simple l && wf l && atoms_okb l && is_cmp6 o && wf r && atoms_okb r && ctest_rhs_okb r && nocmp (pr l) && nocmp (pr r) && balq (pr l)
  end.
Fixpoint cond_okb (c : scond) : bool :=
  match c with
  | SCmp l o r => cmp_okb l o r
  | SAnd a b | SOr a b => cond_okb a && cond_okb b
  | SNot a => cond_okb a
  end.
Definition rule_okb (r : srule) : bool := cond_okb (sr_cond r) && forallb (fun pe => rhs_okb (snd pe)) (sr_sets r).

(** the known finding C01-string-literal-names-a-fact: a quoted string on the right-hand side of a field
    comparison is looked up in the facts (engine.rs evaluate_single_condition, "rhs" for Value::String) *)
Fixpoint strlit_rhs (c : scond) : list str :=
  match c with
  | SCmp (AField _) _ (ALit (LStr s)) => [s]
  | SCmp _ _ _ => []
  | SAnd a b | SOr a b => strlit_rhs a ++ strlit_rhs b
  | SNot a => strlit_rhs a
  end.
Definition deref_hit (rs : list srule) (states : list facts) : bool :=
  existsb (fun r => existsb (fun s => existsb (fun f => match get_nested f s, fget f s with None, None => false | _, _ => true end) states)
                            (strlit_rhs (sr_cond r))) rs.

(** string literals of arithmetic / concatenation conditions (such a condition is kept as the text "lhs op rhs" and split again by
    evaluate_arithmetic_condition; repaired: the operator is looked for outside string literals) *)
Fixpoint lit_strs (l : lit) : list str :=
  match l with LStr s => [s] | LArr ls => (fix go (ls : list lit) : list str := match ls with [] => [] | x :: r => lit_strs x ++ go r end) ls | _ => [] end.
Fixpoint aexp_strs (e : aexp) : list str :=
  match e with ALit l => lit_strs l | ABin _ a b => aexp_strs a ++ aexp_strs b | APar a => aexp_strs a | AField _ => [] end.
Fixpoint test_strs (c : scond) : list str :=
  match c with
  | SCmp (AField _) _ _ => []
  | SCmp l _ r => aexp_strs l ++ aexp_strs r
  | SAnd a b | SOr a b => test_strs a ++ test_strs b
  | SNot a => test_strs a
  end.
Definition cmp_strlit_hit (rs : list srule) : bool := existsb (fun r => existsb (fun s => negb (nocmp s)) (test_strs (sr_cond r))) rs.

(** monitor: 1 = the observation is what the documented semantics prescribes and the case lies within the
    hypotheses of the run theorem; -2 = the same, but the case is outside those hypotheses (monitored only);
    -1 = the documented semantics leaves this run undefined (outside the property's quantifier);
    0 = violation; 2 = violation of the known class C01-string-literal-names-a-fact *)
Definition ok_sx (c o : sx) : Z :=
  match dec_case c, o with
  | Some (rs, f), L [parsed; log; res; fin] =>
      match compiled rs with
      | Some crs =>
          if negb (sx_eqb parsed (L (map (fun '(sal, r) => enc_rule sal r) crs))) then 0
          else match run_rules (sem_step false) (sorted_spec rs) f with
               | None => -1
               | Some (st, k, n) =>
                   if sx_eqb (enc_run (Some (st, k, n))) (L [log; res; fin])
                   then (if forallb rule_okb rs && negb (is_none (run_rules (sem_step true) (sorted_spec rs) f)) then 1 else -2)
                   else if deref_hit rs (f :: map snd (l_log st)) then 2 else 0
               end
      | None => 0 end
  | _, _ => 0
  end.
