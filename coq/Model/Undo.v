(** C10 (store part) — model of the undo frames of src/engine/facts.rs, after the repair
    "fix: committing a nested undo frame hands its log to the enclosing frame".
    Definitions only.

    Rust items modelled:
      facts.rs::Facts::{add_value, get, set, set_nested (paths "k" and "k.f"), remove,
                        begin_undo_frame, commit_undo_frame, rollback_undo_frame, record_undo_for_key,
                        get_fact_type}
    Values: integers and one-level objects with integer fields (enough to make set_nested
    succeed, fail with a missing root, and fail on a non-object root).  The RwLocks are
    irrelevant here (single caller). *)
From RRE Require Import Base.Sx.
Open Scope N_scope.

Inductive value := VInt (z : Z) | VObj (fs : list (N * Z)).

Definition store := list (N * value).
Definition tstore := list (N * N).

Fixpoint lookup {V} (s : list (N * V)) (k : N) : option V :=
  match s with [] => None | (k', v) :: r => if N.eqb k' k then Some v else lookup r k end.
Fixpoint remove_k {V} (s : list (N * V)) (k : N) : list (N * V) :=
  match s with [] => [] | (k', v) :: r => if N.eqb k' k then remove_k r k else (k', v) :: remove_k r k end.
Definition set_k {V} (s : list (N * V)) (k : N) (v : V) : list (N * V) := (k, v) :: remove_k s k.
Definition put_opt {V} (s : list (N * V)) (k : N) (o : option V) : list (N * V) :=
  match o with Some v => set_k s k v | None => remove_k s k end.

Record entry := { e_key : N; e_val : option value; e_ty : option N }.

Record facts := { data : store; types : tstore; frames : list (list entry) (* head = top *) }.

Definition has_key (fr : list entry) (k : N) : bool := existsb (fun e => N.eqb (e_key e) k) fr.

(** record_undo_for_key *)
Definition record (f : facts) (k : N) : facts :=
  match frames f with
  | [] => f
  | top :: rest =>
      if has_key top k then f
      else {| data := data f; types := types f;
              frames := (top ++ [{| e_key := k; e_val := lookup (data f) k; e_ty := lookup (types f) k |}]) :: rest |}
  end.

Definition restore_entry (dt : store * tstore) (e : entry) : store * tstore :=
  (put_opt (fst dt) (e_key e) (e_val e), put_opt (snd dt) (e_key e) (e_ty e)).

Inductive op :=
| Begin | Commit | Rollback
| SetV (k : N) (v : value)
| SetNested (k fld : N) (z : Z)        (* set_nested("k.fld", Integer z) *)
| Remove (k : N).

(** result code: 0 = Ok / unit, 1 = Err FieldNotFound, 2 = Err TypeMismatch *)
Definition step (f : facts) (o : op) : facts * N :=
  match o with
  | Begin => ({| data := data f; types := types f; frames := [] :: frames f |}, 0)
  | Commit =>
      match frames f with
      | [] => (f, 0)
      | top :: [] => ({| data := data f; types := types f; frames := [] |}, 0)
      | top :: parent :: rest =>
          let parent' := fold_left (fun p e => if has_key p (e_key e) then p else p ++ [e]) top parent in
          ({| data := data f; types := types f; frames := parent' :: rest |}, 0)
      end
  | Rollback =>
      match frames f with
      | [] => (f, 0)
      | top :: rest =>
          let '(d, t) := fold_left restore_entry (rev top) (data f, types f) in
          ({| data := d; types := t; frames := rest |}, 0)
      end
  | SetV k v =>
      let f1 := record f k in
      ({| data := set_k (data f1) k v; types := types f1; frames := frames f1 |}, 0)
  | SetNested k fld z =>
      let f1 := record f k in
      match lookup (data f1) k with
      | None => (f1, 1)
      | Some (VObj fs) => ({| data := set_k (data f1) k (VObj (set_k fs fld z)); types := types f1; frames := frames f1 |}, 0)
      | Some (VInt _) => (f1, 2)
      end
  | Remove k =>
      let f1 := record f k in
      ({| data := remove_k (data f1) k; types := remove_k (types f1) k; frames := frames f1 |}, 0)
  end.

(** initial store: add_value for each pair (type "Value" = 1) *)
Definition init_of (kv : list (N * value)) : facts :=
  {| data := fold_left (fun s p => set_k s (fst p) (snd p)) kv [];
     types := fold_left (fun s p => set_k s (fst p) 1) kv [];
     frames := [] |}.

(** ------------------------------------------------------------------ *)
(** Specification: a frame remembers the whole store at [begin]; rollback reinstates it. *)
Record sfacts := { sdata : store; stypes : tstore; snaps : list (store * tstore) }.

Definition sstep (f : sfacts) (o : op) : sfacts * N :=
  match o with
  | Begin => ({| sdata := sdata f; stypes := stypes f; snaps := (sdata f, stypes f) :: snaps f |}, 0)
  | Commit => ({| sdata := sdata f; stypes := stypes f; snaps := tl (snaps f) |}, 0)
  | Rollback =>
      match snaps f with
      | [] => (f, 0)
      | (d, t) :: rest => ({| sdata := d; stypes := t; snaps := rest |}, 0)
      end
  | SetV k v => ({| sdata := set_k (sdata f) k v; stypes := stypes f; snaps := snaps f |}, 0)
  | SetNested k fld z =>
      match lookup (sdata f) k with
      | None => (f, 1)
      | Some (VObj fs) => ({| sdata := set_k (sdata f) k (VObj (set_k fs fld z)); stypes := stypes f; snaps := snaps f |}, 0)
      | Some (VInt _) => (f, 2)
      end
  | Remove k => ({| sdata := remove_k (sdata f) k; stypes := remove_k (stypes f) k; snaps := snaps f |}, 0)
  end.

Definition sinit_of (kv : list (N * value)) : sfacts :=
  {| sdata := data (init_of kv); stypes := types (init_of kv); snaps := [] |}.

(** ------------------------------------------------------------------ *)
(** Observation after each op: result code, then for keys 0..nk-1 the value and the type *)
Definition enc_fields (fs : list (N * Z)) (nf : nat) : sx :=
  L (map (fun i => sxO A (lookup fs i))
         ((fix up (n : nat) : list N := match n with O => [] | S k => up k ++ [N.of_nat k] end) nf)).

Definition enc_value (v : value) : sx :=
  match v with VInt z => L [A 0; A z] | VObj fs => L [A 1; enc_fields fs 2] end.

Fixpoint upto (n : nat) : list N := match n with O => [] | S k => upto k ++ [N.of_nat k] end.

Definition observe (nk : nat) (d : store) (t : tstore) (res : N) : sx :=
  L [sxN res; L (map (fun k => L [sxO enc_value (lookup d k); sxO sxN (lookup t k)]) (upto nk))].

Fixpoint run_from (nk : nat) (f : facts) (ops : list op) : list sx :=
  match ops with
  | [] => []
  | o :: r => let '(f', res) := step f o in observe nk (data f') (types f') res :: run_from nk f' r
  end.

Fixpoint srun_from (nk : nat) (f : sfacts) (ops : list op) : list sx :=
  match ops with
  | [] => []
  | o :: r => let '(f', res) := sstep f o in observe nk (sdata f') (stypes f') res :: srun_from nk f' r
  end.

Definition run (nk : nat) (kv : list (N * value)) (ops : list op) := run_from nk (init_of kv) ops.
Definition srun (nk : nat) (kv : list (N * value)) (ops : list op) := srun_from nk (sinit_of kv) ops.

Definition ok (nk : nat) (kv : list (N * value)) (ops : list op) (os : list sx) : bool :=
  sx_eqb (L (srun nk kv ops)) (L os).

(** wire: case = (0 nk ((k v) ...) (op ...)) ; v = (0 z) | (1 ((f z) ...))
    op = (0) begin | (1) commit | (2) rollback | (3 k v) | (4 k f z) | (5 k) *)
Definition dec_fld (s : sx) : option (N * Z) :=
  match s with L [f; A z] => match getN f with Some f => Some (f, z) | None => None end | _ => None end.
Definition dec_value (s : sx) : option value :=
  match s with
  | L [A 0; A z] => Some (VInt z)
  | L [A 1; L fs] => match mapO dec_fld fs with Some fs => Some (VObj fs) | None => None end
  | _ => None end.
Definition dec_kv (s : sx) : option (N * value) :=
  match s with L [k; v] => match getN k, dec_value v with Some k, Some v => Some (k, v) | _, _ => None end
  | _ => None end.
Definition dec_op (s : sx) : option op :=
  match s with
  | L [A 0] => Some Begin | L [A 1] => Some Commit | L [A 2] => Some Rollback
  | L [A 3; k; v] => match getN k, dec_value v with Some k, Some v => Some (SetV k v) | _, _ => None end
  | L [A 4; k; f; A z] => match getN k, getN f with Some k, Some f => Some (SetNested k f z) | _, _ => None end
  | L [A 5; k] => match getN k with Some k => Some (Remove k) | None => None end
  | _ => None end.
Definition dec_case (s : sx) : option (nat * list (N * value) * list op) :=
  match s with
  | L [A 0; nk; L kv; L ops] =>
      match getN nk, mapO dec_kv kv, mapO dec_op ops with
      | Some nk, Some kv, Some ops => Some (N.to_nat nk, kv, ops)
      | _, _, _ => None end
  | _ => None end.

Definition run_sx (c : sx) : sx :=
  match dec_case c with Some (nk, kv, ops) => L (run nk kv ops) | None => sx_bad end.
Definition ok_sx (c o : sx) : bool :=
  match dec_case c, o with Some (nk, kv, ops), L os => ok nk kv ops os | _, _ => false end.
