(** C12 — model of src/rete/stream_alpha_node.rs (StreamAlphaNode with a sliding or tumbling window under
    the injected clock; after the two eviction repairs): process_event = stream / type filter, is_in_window,
    add_event with the retention cap, evict_expired_events.  Session windows are not modelled.
    Definitions only. *)
From RRE Require Import Base.Sx.
Open Scope N_scope.

Record node := { n_events : list (N * N);      (* (id, timestamp), arrival order *)
                 n_last_start : N }.
Definition node_init : node := {| n_events := []; n_last_start := 0 |}.

Fixpoint drop_old_front (cut : N) (l : list (N * N)) : list (N * N) :=
  match l with (i, t) :: r => if t <? cut then drop_old_front cut r else l | [] => [] end.
Fixpoint cap_front (n : nat) (l : list (N * N)) : list (N * N) :=
  match n with O => l | S k => cap_front k (tl l) end.
Definition cap (maxn : N) (l : list (N * N)) : list (N * N) :=
  cap_front (length l - N.to_nat maxn) l.

(** kind 0 = sliding, 1 = tumbling; [now] the clock, [d] the duration in ms (tumbling: d > 0) *)
Definition in_window (kind d now ts : N) : bool :=
  if kind =? 0 then (now - d <=? ts) && (ts <=? now)
  else let ws := (now / d) * d in (ws <=? ts) && (ts <? ws + d).

Definition evict (kind d now : N) (nd : node) : node :=
  if kind =? 0 then
    (* repaired: every expired event goes, wherever it stands in the arrival order *)
    {| n_events := filter (fun e => negb (snd e <? now - d)) (n_events nd); n_last_start := n_last_start nd |}
  else
    (* repaired: the buffer is not cleared when the window changes (the event that opens the new window
       was just added); events of earlier windows are removed wherever they stand *)
    let ws := (now / d) * d in
    let last := if negb (n_last_start nd =? 0) && negb (ws =? n_last_start nd) then ws
                else if n_last_start nd =? 0 then ws else n_last_start nd in
    {| n_events := filter (fun e => negb (snd e <? ws)) (n_events nd); n_last_start := last |}.

Definition process (kind d maxn now : N) (nd : node) (id ts : N) (src_ok type_ok : bool) : node * bool :=
  if negb src_ok || negb type_ok then (nd, false)
  else if in_window kind d now ts then
    let nd1 := {| n_events := cap maxn (n_events nd ++ [(id, ts)]); n_last_start := n_last_start nd |} in
    (evict kind d now nd1, true)
  else (nd, false).

Inductive sop := SClock (t : N) | SEvent (id ts : N) (src_ok type_ok : bool).

Fixpoint run (kind d maxn now : N) (nd : node) (ops : list sop) : list sx :=
  match ops with
  | [] => []
  | SClock t :: r => L [] :: run kind d maxn t nd r
  | SEvent id ts s t :: r =>
      let '(nd', m) := process kind d maxn now nd id ts s t in
      L [sxB m; sxNs (map fst (n_events nd'))] :: run kind d maxn now nd' r
  end.

(** the property, evaluated on observations: after every accepted event no retained event lies outside the
    window of the clock; the retained events are, in arrival order, accepted events; and while the cap was
    never reached nothing inside the window is missing *)
Fixpoint subseq (a b : list N) : bool :=
  match a, b with
  | [], _ => true
  | _ :: _, [] => false
  | x :: a', y :: b' => if x =? y then subseq a' b' else subseq a b'
  end.

Fixpoint ok_run (kind d maxn now : N) (accepted : list (N * N)) (ops : list sop) (obs : list sx) : bool :=
  match ops, obs with
  | [], [] => true
  | SClock t :: r, L [] :: o => ok_run kind d maxn t accepted r o
  | SEvent id ts s t :: r, L [m; ids] :: o =>
      match getB m, getNs ids with
      | Some m, Some ids =>
          let should := s && t && in_window kind d now ts in
          let accepted' := if should then accepted ++ [(id, ts)] else accepted in
          let lo := if kind =? 0 then now - d else (now / d) * d in
          let tsof i := match find (fun e => fst e =? i) accepted' with Some e => snd e | None => 0 end in
          Bool.eqb m should
          && subseq ids (map fst accepted')
          && (negb m || forallb (fun i => lo <=? tsof i) ids)
          && (negb m || negb (N.of_nat (length accepted') <=? maxn) ||
              forallb (fun e => negb (lo <=? snd e) || existsb (N.eqb (fst e)) ids) accepted')
          && ok_run kind d maxn now accepted' r o
      | _, _ => false end
  | _, _ => false
  end.

Definition dec_sop (s : sx) : option sop :=
  match s with
  | L [A 0; t] => option_map SClock (getN t)
  | L [A 1; i; ts; a; b] => match getN i, getN ts, getB a, getB b with Some i, Some ts, Some a, Some b => Some (SEvent i ts a b) | _, _, _, _ => None end
  | _ => None end.

(** case = (3 kind duration cap (op ...)) *)
Definition run_sx (c : sx) : sx :=
  match c with
  | L [A 3; k; d; cp; L ops] =>
      match getN k, getN d, getN cp, mapO dec_sop ops with
      | Some k, Some d, Some cp, Some ops => if (k =? 1) && (d =? 0) then sx_bad else L (run k d cp 0 node_init ops)
      | _, _, _, _ => sx_bad end
  | _ => sx_bad end.
Definition ok_sx (c o : sx) : bool :=
  match c, o with
  | L [A 3; k; d; cp; L ops], L obs =>
      match getN k, getN d, getN cp, mapO dec_sop ops with
      | Some k, Some d, Some cp, Some ops => ok_run k d cp 0 [] ops obs
      | _, _, _, _ => false end
  | _, _ => false end.
