(** C14 — StreamJoinManager (src/streaming/join_manager.rs): registration, routing of events and watermarks to the join
    nodes that consume a stream, delivery of the emitted pairs to the handler of each join.  Definitions only.

    Rust items modelled:
      join_manager.rs::StreamJoinManager::{register_join, unregister_join, process_event, update_watermark}
    A join node is Model/Join.v (Inner / TimeWindow).  `joins` and `result_handlers` are maps by join id (a later registration
    under the same id replaces the node); `stream_to_joins` maps a stream name to the vector of join ids pushed at registration,
    the left stream first (so a join whose two streams are the same stream is listed twice under it, and - because the
    side is decided by comparing with left_stream - receives every event twice as a LEFT event and never as a right one;
    the theorems are stated for joins over two different streams). *)
From RRE Require Import Base.Sx Model.Join.
Open Scope Z_scope.

Record jreg := { j_id : Z; j_left : Z; j_right : Z; j_w : Z; j_kind : Z; j_st : jstate }.
Record mgr := { joins : list jreg; s2j : list (Z * list Z) }.
Definition minit : mgr := {| joins := []; s2j := [] |}.

Fixpoint jfind (l : list jreg) (id : Z) : option jreg :=
  match l with [] => None | j :: r => if j_id j =? id then Some j else jfind r id end.
Fixpoint jput (l : list jreg) (j : jreg) : list jreg :=
  match l with [] => [j] | x :: r => if j_id x =? j_id j then j :: r else x :: jput r j end.
Definition jdel (l : list jreg) (id : Z) : list jreg := filter (fun j => negb (j_id j =? id)) l.

Fixpoint sget (m : list (Z * list Z)) (s : Z) : list Z :=
  match m with [] => [] | (k, v) :: r => if k =? s then v else sget r s end.
Fixpoint spush (m : list (Z * list Z)) (s : Z) (id : Z) : list (Z * list Z) :=
  match m with [] => [(s, [id])] | (k, v) :: r => if k =? s then (k, v ++ [id]) :: r else (k, v) :: spush r s id end.
Definition sdrop (m : list (Z * list Z)) (s : Z) (id : Z) : list (Z * list Z) :=
  map (fun kv => if fst kv =? s then (fst kv, filter (fun x => negb (x =? id)) (snd kv)) else kv) m.

Inductive mop :=
| MRegister (id left right w kind : Z)
| MUnregister (id : Z)
| MEvent (stream : Z) (e : event)
| MWm (stream : Z) (z : Z).

(** deliver to every join listed under the stream, in list order; each delivery runs one step of that join's node *)
Fixpoint route (js : list jreg) (ids : list Z) (f : jreg -> op) (out : list (Z * list (Z * Z))) : list jreg * list (Z * list (Z * Z)) :=
  match ids with
  | [] => (js, out)
  | id :: r =>
      match jfind js id with
      | None => route js r f out
      | Some j =>
          let '(st', pairs) := step (cond_of (j_kind j)) (j_w j) (j_st j) (f j) in
          route (jput js {| j_id := j_id j; j_left := j_left j; j_right := j_right j; j_w := j_w j; j_kind := j_kind j; j_st := st' |})
                r f (out ++ [(id, pairs)])
      end
  end.

Definition mstep (m : mgr) (o : mop) : mgr * list (Z * list (Z * Z)) :=
  match o with
  | MRegister id l r w k =>
      ({| joins := jput (joins m) {| j_id := id; j_left := l; j_right := r; j_w := w; j_kind := k; j_st := init |};
          s2j := spush (spush (s2j m) l id) r id |}, [])
  | MUnregister id =>
      match jfind (joins m) id with
      | Some j => ({| joins := jdel (joins m) id; s2j := sdrop (sdrop (s2j m) (j_left j) id) (j_right j) id |}, [])
      | None => (m, [])
      end
  | MEvent s e =>
      let '(js, out) := route (joins m) (sget (s2j m) s) (fun j => if j_left j =? s then OLeft e else ORight e) [] in
      ({| joins := js; s2j := s2j m |}, out)
  | MWm s z =>
      let '(js, out) := route (joins m) (sget (s2j m) s) (fun _ => OWm z) [] in
      ({| joins := js; s2j := s2j m |}, out)
  end.

Fixpoint mrun (m : mgr) (ops : list mop) : list (list (Z * list (Z * Z))) :=
  match ops with [] => [] | o :: r => let '(m', out) := mstep m o in out :: mrun m' r end.

(** what join [id] (streams l, r) sees of a history: its own projection *)
Definition proj (id l r : Z) (o : mop) : list op :=
  match o with
  | MEvent s e => if l =? s then [OLeft e] else if r =? s then [ORight e] else []
  | MWm s z => if (l =? s) || (r =? s) then [OWm z] else []
  | _ => []
  end.
(** the pairs delivered to the handler of join [id], per manager op *)
Definition delivered (id : Z) (outs : list (list (Z * list (Z * Z)))) : list (Z * Z) :=
  flat_map (fun out => flat_map (fun d => if fst d =? id then snd d else []) out) outs.

(** ---------- wire: case = (9 (mop ...)) in the C14 stream; mop = (0 id l r w kind) | (1 id) | (2 stream id ts key attr) | (3 stream z)
    observation: per op ((join-id (pair ...)) ...) in delivery order, joins that received no pair omitted *)
Definition dec_mop (s : sx) : option mop :=
  match s with
  | L [A 0; A id; A l; A r; A w; A k] => Some (MRegister id l r w k)
  | L [A 1; A id] => Some (MUnregister id)
  | L [A 2; A st; A i; A t; k; A a] => match dec_key k with Some k => Some (MEvent st {| eid := i; ets := t; ekey := k; eattr := a |}) | None => None end
  | L [A 3; A st; A z] => Some (MWm st z)
  | _ => None end.
(* a handler is called once per pair: a routed join that emitted nothing is invisible *)
Definition enc_mout (out : list (Z * list (Z * Z))) : sx :=
  L (map (fun d => L [A (fst d); enc_pairs (snd d)]) (filter (fun d => match snd d with [] => false | _ => true end) out)).
Definition run_mgr_sx (ops : list sx) : sx :=
  match mapO dec_mop ops with Some ops => L (map enc_mout (mrun minit ops)) | None => sx_bad end.
