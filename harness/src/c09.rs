//! C09/C10(query)/C11 — backward chaining (to be filled in)
use crate::sx::Sx;
pub fn run_c10_query(_case: &Sx) -> (Sx, String) { panic!("not implemented") }
