//! C09 / C11 (and the query part of C10) — backward chaining on Horn-style rule sets built with the Rule API.
//! case = (strategy max_depth max_solutions det (rule ...) facts (op ...)) — encodings in coq/Model/Backward.v.
//! observation = ((verdict ...) (per-op details)) where a query's details are (provable facts-before facts-after).
use crate::c01;
use crate::rng::Rng;
use crate::sx::Sx;
use crate::Tier;
use rust_rule_engine::backward::backward_engine::{BackwardConfig, BackwardEngine};
use rust_rule_engine::backward::search::SearchStrategy;
use rust_rule_engine::engine::facts::Facts;
use rust_rule_engine::engine::knowledge_base::KnowledgeBase;
use rust_rule_engine::engine::rule::{Condition, ConditionGroup, Rule};
use rust_rule_engine::types::{ActionType, Operator, Value};

const FIELDS: &[&str] = &["F0", "F1", "F2", "F3", "F4", "F5", "Obj.a", "Obj.b"];
#[derive(Clone, Copy, PartialEq)]
enum T { B, I, S }
const KIND: &[T] = &[T::B, T::B, T::B, T::I, T::I, T::S, T::B, T::I];

fn v_bool(b: bool) -> Sx { Sx::l(vec![Sx::n(3), Sx::b(b)]) }
fn v_int(z: i64) -> Sx { Sx::l(vec![Sx::n(0), Sx::i(z)]) }
fn v_str(s: &str) -> Sx { Sx::l(vec![Sx::n(2), Sx::s(s)]) }
/// the designated value of a field (what a consistent rule concludes) and a wrong one
thread_local! { static OPSTR: std::cell::Cell<bool> = std::cell::Cell::new(false); }
/// per case: plain string values, or string values that contain operator characters (a goal `F == "a>=b"` has ONE operator)
fn good(i: usize) -> Sx { match KIND[i] { T::B => v_bool(true), T::I => v_int(5 + i as i64), T::S => v_str(if OPSTR.with(|c| c.get()) { "a>=b" } else { "gold" }) } }
fn wrong(i: usize, rng: &mut Rng) -> Sx { match KIND[i] { T::B => v_bool(false), T::I => v_int(*rng.pick(&[0i64, 1, 99])), T::S => v_str(if OPSTR.with(|c| c.get()) { "x == y" } else { "silver" }) } }

fn leaf(rng: &mut Rng, live: &[usize]) -> Sx {
    let i = *rng.pick(live);
    let (op, v) = match (KIND[i], rng.below(6)) {
        (T::I, 0) => (3u64, v_int(3)),                       // >= 3 (holds of the designated value)
        (T::I, 1) => (4u64, v_int(100)),                     // < 100
        (_, 2) => if rng.chance(1, 2) { (0u64, wrong(i, rng)) } else { (0u64, good(i)) },   // sometimes a dead end: a value nobody concludes
        _ => (0u64, good(i)),
    };
    Sx::l(vec![Sx::n(0), Sx::s(FIELDS[i]), Sx::n(op), v])
}
fn group(rng: &mut Rng, live: &[usize], depth: u32, conj_only: bool) -> Sx {
    if depth == 0 || rng.chance(1, 2) { return leaf(rng, live); }
    let k = if conj_only || rng.chance(2, 3) { 1 } else { 2 };
    Sx::l(vec![Sx::n(k), group(rng, live, depth - 1, conj_only), group(rng, live, depth - 1, conj_only)])
}

fn gen_case(rng: &mut Rng, history: bool) -> Sx {
    OPSTR.with(|c| c.set(rng.chance(1, 4)));
    let nf = rng.range(3, FIELDS.len() as u64) as usize;
    let live: Vec<usize> = (0..nf).collect();
    let nr = rng.range(1, 8) as usize;
    let conj_only = rng.chance(1, 2);
    let det = rng.chance(2, 3);
    // det: every field is concluded by at most one rule, with its designated value
    let mut targets: Vec<usize> = live.clone(); rng.shuffle(&mut targets);
    let mut rules = vec![];
    for r in 0..nr {
        let mut sets = vec![];
        if det {
            if r >= targets.len() { break; }
            sets.push(Sx::l(vec![Sx::s(FIELDS[targets[r]]), good(targets[r])]));
        } else {
            for _ in 0..rng.range(1, 2) {
                let t = *rng.pick(&live);
                let v = if rng.chance(1, 5) { wrong(t, rng) } else { good(t) };
                sets.push(Sx::l(vec![Sx::s(FIELDS[t]), v]));
            }
        }
        let d = *rng.pick(&[0u32, 1, 1, 2]);
        rules.push(Sx::l(vec![group(rng, &live, d, conj_only), Sx::l(sets)]));
    }
    // initial facts: some fields present with their designated value (monotone), rarely with a wrong value
    let mut facts = vec![];
    for &i in &live { if rng.chance(2, 5) { let v = if !det && rng.chance(1, 8) { wrong(i, rng) } else { good(i) }; facts.push(Sx::l(vec![Sx::s(FIELDS[i]), v])); } }
    let goal = |rng: &mut Rng| { let i = *rng.pick(&live);
        let (op, v) = match (KIND[i], rng.below(8)) { (T::I, 0) => (3u64, v_int(3)), (_, 1) => (0u64, wrong(i, rng)), _ => (0u64, good(i)) };
        Sx::l(vec![Sx::s(FIELDS[i]), Sx::n(op), v]) };
    let mut ops = vec![];
    if history {
        for _ in 0..rng.range(2, 6) {
            ops.push(match rng.below(8) {
                0 => { let i = *rng.pick(&live); let v = if rng.chance(1, 3) && !det { wrong(i, rng) } else { good(i) }; Sx::l(vec![Sx::n(1), Sx::s(FIELDS[i]), v]) }
                1 | 2 => Sx::l(vec![Sx::n(2), Sx::s(FIELDS[*rng.pick(&live)])]),
                3 if rng.chance(1, 2) => Sx::l(vec![Sx::n(3)]),       // an aggregate query that fails half-way
                _ => Sx::l(vec![Sx::n(0), goal(rng)]),
            });
        }
        // paired changes between two askings of one query: two fields of one kind swap their values, or both get the same new value
        if rng.chance(1, 2) {
            let g = goal(rng);
            let same: Vec<usize> = live.iter().cloned().filter(|&i| KIND[i] == T::B).collect();
            if same.len() >= 2 {
                let (i, j) = (same[0], same[1]);
                let (a, b) = (rng.chance(1, 2), rng.chance(1, 2));
                ops.push(Sx::l(vec![Sx::n(1), Sx::s(FIELDS[i]), v_bool(a)])); ops.push(Sx::l(vec![Sx::n(1), Sx::s(FIELDS[j]), v_bool(b)]));
                ops.push(Sx::l(vec![Sx::n(0), g.clone()]));
                let (a2, b2) = if a != b { (b, a) } else { (!a, !b) };
                ops.push(Sx::l(vec![Sx::n(1), Sx::s(FIELDS[i]), v_bool(a2)])); ops.push(Sx::l(vec![Sx::n(1), Sx::s(FIELDS[j]), v_bool(b2)]));
                ops.push(Sx::l(vec![Sx::n(0), g]));
            }
        }
        // sibling queries: the same field and the same word operator (contains / starts_with / ends_with) with different
        // literals, the failing one first - two different queries that any normalisation of the query text must keep apart
        if nf >= 6 && rng.chance(1, 2) {
            let opc = *rng.pick(&[6u64, 8, 9]);
            let (yes, no) = match opc { 6 => ("ol", "ilv"), 8 => ("go", "si"), _ => ("ld", "er") };
            if rng.chance(1, 2) { ops.push(Sx::l(vec![Sx::n(1), Sx::s(FIELDS[5]), v_str("gold")])); }
            ops.push(Sx::l(vec![Sx::n(0), Sx::l(vec![Sx::s(FIELDS[5]), Sx::n(opc), v_str(no)])]));
            ops.push(Sx::l(vec![Sx::n(0), Sx::l(vec![Sx::s(FIELDS[5]), Sx::n(opc), v_str(yes)])]));
            if rng.chance(1, 2) { ops.push(Sx::l(vec![Sx::n(0), Sx::l(vec![Sx::s(FIELDS[5]), Sx::n(opc), v_str(no)])])); }
        }
        // type twins: an integer-valued field holds the FLOAT of its designated value (Number(12.0) where rules test Integer(12)), a query is
        // asked, the field gets the integer, the same query is asked again - equal-looking values of different type must not share a memo entry
        if rng.chance(1, 3) {
            let ints: Vec<usize> = live.iter().cloned().filter(|&i| KIND[i] == T::I).collect();
            if let Some(&i) = ints.first() {
                let k = 5 + i as i64;
                let gs = vec![goal(rng), goal(rng)];
                let fl = Sx::l(vec![Sx::n(1), Sx::i(((k as f64).to_bits()) as i64)]);
                let (first, second) = if rng.chance(2, 3) { (fl, v_int(k)) } else { (v_int(k), fl) };
                ops.push(Sx::l(vec![Sx::n(1), Sx::s(FIELDS[i]), first]));
                for g in &gs { ops.push(Sx::l(vec![Sx::n(0), g.clone()])); }
                ops.push(Sx::l(vec![Sx::n(1), Sx::s(FIELDS[i]), second]));
                for g in &gs { ops.push(Sx::l(vec![Sx::n(0), g.clone()])); }
            }
        }
        // the same query twice with a change of the facts in between is the interesting shape: make it likely
        if rng.chance(1, 2) { let g = goal(rng); let i = *rng.pick(&live);
            ops.push(Sx::l(vec![Sx::n(0), g.clone()])); ops.push(Sx::l(vec![Sx::n(2), Sx::s(FIELDS[i])])); ops.push(Sx::l(vec![Sx::n(0), g])); }
    } else { ops.push(Sx::l(vec![Sx::n(0), goal(rng)])); }
    let strategy = *rng.pick(&[0u64, 0, 0, 1, 2]);
    // the search is exponential in the depth bound on cyclic rule sets: deep bounds only for small or deterministic sets
    let md = if det || nr <= 3 { *rng.pick(&[0u64, 1, 2, 3, 6, 10]) } else if nr <= 5 { *rng.pick(&[0u64, 1, 2, 3, 4]) } else { *rng.pick(&[0u64, 1, 2, 3]) };
    let maxsol = *rng.pick(&[1u64, 1, 3]);
    Sx::l(vec![Sx::n(strategy), Sx::n(md), Sx::n(maxsol), Sx::b(det), Sx::l(rules), Sx::l(facts), Sx::l(ops)])
}

/// A goal that needs a conjunction of sub-goals, each derivable through a chain down to a base fact, with decoy rules
/// listed FIRST that reach a shared sub-goal through a longer path, and a depth bound that is exactly tight (or off by one):
/// the shape on which bounded completeness and per-query caches of failed sub-goals go wrong.
fn gen_layered(rng: &mut Rng) -> Sx {
    let t = |b: bool| v_bool(b);
    let fld = |i: usize| format!("N{}", i);
    let cond1 = |f: &str| Sx::l(vec![Sx::n(0), Sx::s(f), Sx::n(0), t(true)]);
    let mut rules: Vec<Sx> = vec![];
    let mut facts: Vec<Sx> = vec![];
    let mut next = 0usize;
    let mut fresh = |next: &mut usize| { *next += 1; fld(*next) };
    let goal = fresh(&mut next);
    let k = rng.range(1, 3) as usize;
    // sub-goals and their chains (length 0..3) down to base facts
    let mut subs: Vec<(String, usize)> = vec![];
    let mut chain_rules: Vec<Sx> = vec![];
    for _ in 0..k {
        let s = fresh(&mut next); let len = rng.below(3) as usize;
        let mut cur = s.clone();
        for _ in 0..len { let nx = fresh(&mut next); chain_rules.push(Sx::l(vec![cond1(&nx), Sx::l(vec![Sx::l(vec![Sx::s(&cur), t(true)])])])); cur = nx; }
        let base = fresh(&mut next); chain_rules.push(Sx::l(vec![cond1(&base), Sx::l(vec![Sx::l(vec![Sx::s(&cur), t(true)])])]));
        facts.push(Sx::l(vec![Sx::s(&base), t(true)]));
        subs.push((s, len + 1));
    }
    // the rule for the goal
    let mut c = cond1(&subs[0].0);
    for (s, _) in subs.iter().skip(1) { c = Sx::l(vec![Sx::n(1), c, cond1(s)]); }
    rules.push(Sx::l(vec![c, Sx::l(vec![Sx::l(vec![Sx::s(&goal), t(true)])])]));
    // decoys first: an alternative rule for the first sub-goal that goes through 1..2 extra hops to ANOTHER sub-goal (or a dead end)
    let (s0, _) = subs[0].clone();
    let target = if k > 1 && rng.chance(2, 3) { subs[1].0.clone() } else { "Nowhere".to_string() };
    let hops = rng.range(0, 2);
    let mut cur = s0.clone(); let mut decoys = vec![];
    for _ in 0..hops { let nx = fresh(&mut next); decoys.push(Sx::l(vec![cond1(&nx), Sx::l(vec![Sx::l(vec![Sx::s(&cur), t(true)])])])); cur = nx; }
    decoys.push(Sx::l(vec![cond1(&target), Sx::l(vec![Sx::l(vec![Sx::s(&cur), t(true)])])]));
    if rng.chance(3, 4) { rules.extend(decoys); rules.extend(chain_rules); } else { rules.extend(chain_rules); rules.extend(decoys); }
    let height = 1 + subs.iter().map(|x| x.1).max().unwrap();
    let md = (height as i64 + *rng.pick(&[-2i64, -1, 0, 0, 0, 1])).max(0) as u64;
    let ops = vec![Sx::l(vec![Sx::n(0), Sx::l(vec![Sx::s(&goal), Sx::n(0), t(true)])])];
    Sx::l(vec![Sx::n(*rng.pick(&[0u64, 0, 0, 2])), Sx::n(md), Sx::n(*rng.pick(&[1u64, 1, 3])), Sx::b(false), Sx::l(rules), Sx::l(facts), Sx::l(ops)])
}

pub fn gen(tier: Tier, rng: &mut Rng) -> Vec<Sx> {
    let n = if tier == Tier::Thorough { 200000 } else { 12000 };
    let mut v: Vec<Sx> = (0..n).map(|_| gen_case(rng, false)).collect();
    v.extend((0..n / 3).map(|_| gen_layered(rng)));
    v
}
pub fn gen_c11(tier: Tier, rng: &mut Rng) -> Vec<Sx> { let n = if tier == Tier::Thorough { 100000 } else { 8000 }; (0..n).map(|_| gen_case(rng, true)).collect() }

fn op_of(o: u64) -> (Operator, &'static str) {
    match o { 0 => (Operator::Equal, "=="), 1 => (Operator::NotEqual, "!="), 2 => (Operator::GreaterThan, ">"), 3 => (Operator::GreaterThanOrEqual, ">="),
              4 => (Operator::LessThan, "<"), 5 => (Operator::LessThanOrEqual, "<="),
              6 => (Operator::Contains, "contains"), 8 => (Operator::StartsWith, "starts_with"), _ => (Operator::EndsWith, "ends_with") }
}
fn cond_of(c: &Sx) -> ConditionGroup {
    match c.at(0).as_u() {
        0 => ConditionGroup::single(Condition::new(c.at(1).as_s(), op_of(c.at(2).as_u()).0, c01::val_of_sx(c.at(3)))),
        1 => ConditionGroup::and(cond_of(c.at(1)), cond_of(c.at(2))),
        _ => ConditionGroup::or(cond_of(c.at(1)), cond_of(c.at(2))),
    }
}
fn lit_text(v: &Sx) -> String { match v.at(0).as_u() { 0 => format!("{}", v.at(1).as_i()), 2 => format!("\"{}\"", v.at(1).as_s()), _ => if v.at(1).as_b() { "true".into() } else { "false".into() } } }

fn mk_engine(case: &Sx) -> BackwardEngine {
    let kb = KnowledgeBase::new("c09");
    for (i, r) in case.at(4).as_l().iter().enumerate() {
        let acts = r.at(1).as_l().iter().map(|kv| ActionType::Set { field: kv.at(0).as_s(), value: c01::val_of_sx(kv.at(1)) }).collect();
        kb.add_rule(Rule::new(format!("R{}", i), cond_of(r.at(0)), acts)).unwrap();
    }
    let config = BackwardConfig {
        max_depth: case.at(1).as_us(),
        strategy: match case.at(0).as_u() { 0 => SearchStrategy::DepthFirst, 1 => SearchStrategy::BreadthFirst, _ => SearchStrategy::Iterative },
        enable_memoization: true,
        max_solutions: case.at(2).as_us(),
    };
    BackwardEngine::with_config(kb, config)
}

pub fn run(case: &Sx) -> (Sx, String) {
    let mut engine = mk_engine(case);
    let mut facts = Facts::new();
    for kv in case.at(5).as_l() { facts.set(&kv.at(0).as_s(), c01::val_of_sx(kv.at(1))); }
    let (mut verdicts, mut details) = (vec![], vec![]);
    let (mut nq, mut nyes) = (0, 0);
    // the same history on a second engine with an IncrementalEngine (RETE + TMS + proof graph) attached to every query, with a
    // retraction there after every query; query by query its verdict must be the one of a freshly built attached pair on the same facts
    let mut att_engine = mk_engine(case);
    let rete = std::sync::Arc::new(std::sync::Mutex::new(rust_rule_engine::rete::propagation::IncrementalEngine::new()));
    let mut att_facts = Facts::new();
    for kv in case.at(5).as_l() { att_facts.set(&kv.at(0).as_s(), c01::val_of_sx(kv.at(1))); }
    for op in case.at(6).as_l() {
        match op.at(0).as_u() {
            0 => {
                let g = op.at(1);
                let q = format!("{} {} {}", g.at(0).as_s(), op_of(g.at(1).as_u()).1, lit_text(g.at(2)));
                let snapshot = facts.get_all_facts();
                let before = c01::sx_of_facts(&snapshot);
                let res = engine.query(&q, &mut facts).expect("query");
                let after = c01::sx_of_facts(&facts.get_all_facts());
                nq += 1; if res.provable { nyes += 1; }
                // the same query on a freshly built engine and a copy of the facts gives the same verdict, and the engine with a
                // history still has the configuration it was built with (the number of solutions is NOT compared: even two fresh
                // engines disagree on it, it depends on the iteration order of the candidate hash set; for the same reason the
                // verdict of the breadth-first strategy on rule sets with conflicting conclusions is not compared)
                let mut fresh_engine = mk_engine(case);
                let mut fresh_facts = Facts::new();
                for (k, v) in snapshot.iter() { fresh_facts.set(k, v.clone()); }
                let fr = fresh_engine.query(&q, &mut fresh_facts).expect("fresh query");
                let att_snapshot = att_facts.get_all_facts();
                let ra = att_engine.query_with_rete_engine(&q, &mut att_facts, Some(rete.clone()));
                let mut fa_engine = mk_engine(case);
                let frete = std::sync::Arc::new(std::sync::Mutex::new(rust_rule_engine::rete::propagation::IncrementalEngine::new()));
                let mut fa_facts = Facts::new();
                for (k, v) in att_snapshot.iter() { fa_facts.set(k, v.clone()); }
                let rf = fa_engine.query_with_rete_engine(&q, &mut fa_facts, Some(frete));
                let att_same = match (&ra, &rf) { (Ok(a), Ok(b)) => case.at(0).as_u() == 1 || a.provable == b.provable, (Err(_), Err(_)) => true, _ => false };
                if let Ok(mut e) = rete.lock() { let hs = e.working_memory().get_all_handles(); if let Some(h) = hs.iter().min_by_key(|h| h.id()) { let _ = e.retract(*h); } }
                let same = att_same && (case.at(0).as_u() == 1 || fr.provable == res.provable) && engine.config().max_solutions == case.at(2).as_us() && engine.config().max_depth == case.at(1).as_us();
                verdicts.push(Sx::l(vec![Sx::b(res.provable)]));
                details.push(Sx::l(vec![Sx::b(res.provable), before, after, Sx::b(same)]));
            }
            3 => { let _ = engine.query_aggregate("count(?x) WHERE (unclosed", &mut facts); verdicts.push(Sx::l(vec![])); details.push(Sx::l(vec![])); }
            1 => { facts.set(&op.at(1).as_s(), c01::val_of_sx(op.at(2))); att_facts.set(&op.at(1).as_s(), c01::val_of_sx(op.at(2))); verdicts.push(Sx::l(vec![])); details.push(Sx::l(vec![])); }
            _ => { facts.remove(&op.at(1).as_s()); att_facts.remove(&op.at(1).as_s()); verdicts.push(Sx::l(vec![])); details.push(Sx::l(vec![])); }
        }
    }
    let label = if nyes == 0 { "trivial: nothing provable".to_string() } else { format!("s{} {} of {} provable", case.at(0).as_u(), nyes.min(3), nq.min(6)) };
    (Sx::l(vec![Sx::l(verdicts), Sx::l(details)]), label)
}

/// C10, query part: case = (1 backward-case)
pub fn run_c10_query(case: &Sx) -> (Sx, String) { let (o, l) = run(case.at(1)); (o, format!("query {}", l)) }
pub fn gen_c10_queries(tier: Tier, rng: &mut Rng) -> Vec<Sx> {
    let n = if tier == Tier::Thorough { 100000 } else { 6000 };
    (0..n).map(|i| Sx::l(vec![Sx::n(1), gen_case(rng, i % 3 == 0)])).collect()
}
