//! C04 — GRL rule files generated from the documented grammar, printed with arbitrary layout and comments,
//! parsed by GRLParser::parse_rules; observed: every rule's name, salience, attributes, condition tree and
//! action list.  Second stream: bare when clauses for the condition-tree parser (hook verif_parse_when_clause).
//! Encodings: coq/Model/Grl.v.
use crate::c01;
use crate::rng::Rng;
use crate::sx::Sx;
use crate::Tier;
use rust_rule_engine::parser::grl::GRLParser;
use rust_rule_engine::types::ActionType;

const NAMES_Q: &[&str] = &["Check Age", "VIP upgrade", "R1", "discount-rule", "Règle été", "a_b", "Order > 100", "x"];
const NAMES_B: &[&str] = &["CheckAge", "R2", "apply_discount", "_tmp", "Rule9"];
const GROUPS: &[&str] = &["validation", "g1", "pricing tier", "no-loop", "salience 7"];
const TAME: &[&str] = &["", "a", "gold", "active", "x y", "Gold", "über", "abc def",
    // blanks inside a string literal are content: runs of blanks, leading / trailing blanks, tabs, non-ASCII spaces
    "a  b", " lead", "trail ", "tab\there", "x\u{a0}y", "全角\u{3000}空白", "   "];
/// strings with GRL metacharacters (string literals must be opaque to the parser)
const META: &[&str] = &["a;b", "x && y", "p || q", "}", "{", "a } b {", "now then go", "// not a comment", "(", ")", "f(x) > 1", "a = b", "a, b",
                        "rule X {", "when", "salience 9", "!", "a == b", "1 + 2", "100%", "it's", "no-loop"];
const DESCR: &[&str] = &["desc {x", "a } b", "Age verification rule", "gives a discount", "salience 5 is not meant here", "see no-loop", "uses agenda-group and lock-on-active"];
const COMMENTS: &[&str] = &["// check", "// TODO: tune threshold", "//", "// a && b || c", "// then", "// \"quoted\"", "// x; y = 1", "// when (",
    // the documented block comments (docs/core-features/GRL_SYNTAX.md, section Comments), on one line and over several lines
    "/* note */", "/* x; y = 1 */", "/* } then { */", "/*\n   Multi-line\n   comment\n*/", "/*\n * Apply gold tier discount\n * with special pricing\n */", "/* \"quoted */"];
/// comments that the regular-expression front end is known to trip over (known findings): a closing brace, a rule header
const BAD_COMMENTS: &[&str] = &["// }", "// rule \"Ghost\" { when A.b == 1 then A.c = 2; }"];

thread_local! { static BADC: std::cell::Cell<bool> = std::cell::Cell::new(false); }
fn comment(lay: &mut Rng) -> &'static str { if BADC.with(|b| b.get()) && lay.chance(1, 2) { *lay.pick(BAD_COMMENTS) } else { *lay.pick(COMMENTS) } }

fn mk_str(rng: &mut Rng, meta: bool) -> String {
    if meta && rng.chance(1, 3) { rng.pick(META).to_string() } else { rng.pick(TAME).to_string() }
}

/// replace string literals of a condition / expression tree by strings of the chosen alphabet
fn restring(x: &Sx, rng: &mut Rng, meta: bool) -> Sx {
    match x {
        Sx::L(l) if l.len() == 2 && l[0] == Sx::n(2) && matches!(l[1], Sx::L(_)) && l[1].as_l().iter().all(|c| matches!(c, Sx::A(_))) => c01::lit_str(&mk_str(rng, meta)),
        Sx::L(l) => Sx::l(l.iter().map(|y| restring(y, rng, meta)).collect()),
        a => a.clone(),
    }
}

fn gen_gcond(rng: &mut Rng, depth: u32, meta: bool) -> Sx {
    if depth == 0 || rng.chance(2, 5) {
        let leaf = restring(&c01::gen_leaf(rng), rng, meta);
        return if rng.chance(1, 6) { Sx::l(vec![Sx::n(4), leaf]) } else { leaf };
    }
    let n = match rng.below(11) {
        0..=3 => Sx::l(vec![Sx::n(1), gen_gcond(rng, depth - 1, meta), gen_gcond(rng, depth - 1, meta)]),
        4..=7 => Sx::l(vec![Sx::n(2), gen_gcond(rng, depth - 1, meta), gen_gcond(rng, depth - 1, meta)]),
        8 | 9 => { let inner = gen_gcond(rng, depth - 1, meta); if rng.chance(1, 3) { Sx::l(vec![Sx::n(3), Sx::l(vec![Sx::n(3), inner])]) } else { Sx::l(vec![Sx::n(3), inner]) } }
        _ => Sx::l(vec![Sx::n(4), gen_gcond(rng, depth - 1, meta)]),
    };
    if rng.chance(1, 8) { Sx::l(vec![Sx::n(4), n]) } else { n }
}

fn gen_lit(rng: &mut Rng, meta: bool) -> Sx {
    match rng.below(6) {
        0 => c01::lit_int(c01::small_int(rng)), 1 => c01::lit_int(-c01::small_int(rng)), 2 => c01::lit_num(*rng.pick(&["0.5", "3.25", "-1.5", "100.0"])),
        3 => c01::lit_bool(rng.chance(1, 2)), 4 => c01::lit_null(), _ => c01::lit_str(&mk_str(rng, meta)),
    }
}

/// string arguments that contain the other quote character and commas (the argument splitter must keep them whole)
const QUOTEY: &[&str] = &["it's", "a'b,c", "'", "don't, won't", "x,y", ",", "'',", "5 o'clock, sharp", "','"];
fn gen_arg(rng: &mut Rng, meta: bool, quotey: bool) -> Sx { if quotey && rng.chance(2, 3) { c01::lit_str(*rng.pick(QUOTEY)) } else { gen_lit(rng, meta) } }

fn gen_action(rng: &mut Rng, meta: bool) -> Sx {
    let target: Vec<&str> = match rng.below(5) { 0 => vec!["out"], 1 => vec!["User", "level"], 2 => vec!["Order", "cust", "tag"], 3 => vec!["order_qty"], _ => c01::any_field(rng).to_vec() };
    let value = |rng: &mut Rng| match rng.below(7) {
        0 | 1 => c01::a_lit(gen_lit(rng, meta)),
        2 => { let nk = c01::num_kind(rng); c01::num_sum(rng, false, 0, 2, nk) }
        3 => restring(&c01::str_sum(rng), rng, meta),
        4 => c01::a_field(c01::any_field(rng)),
        5 => c01::a_lit(c01::lit_arr((0..rng.below(4)).map(|_| gen_lit(rng, meta)).collect())),
        _ => c01::a_lit(c01::lit_str(&mk_str(rng, meta))),
    };
    let quotey = rng.chance(1, 2);
    match rng.below(15) {
        0..=5 => Sx::l(vec![Sx::n(0), c01::path_sx(&target), value(rng)]),
        6 => Sx::l(vec![Sx::n(1), c01::path_sx(&target), c01::a_lit(gen_lit(rng, meta))]),
        7 => Sx::l(vec![Sx::n(2), Sx::s(&{ let s = mk_str(rng, meta); if s.is_empty() { "m".into() } else { s } })]),
        8 => Sx::l(vec![Sx::n(3), Sx::s(*rng.pick(&["User", "Order", "Session"]))]),
        9 => Sx::l(vec![Sx::n(4), Sx::s(*rng.pick(&["validation", "g1", "pricing"]))]),
        10 => Sx::l(vec![Sx::n(5), Sx::i(*rng.pick(&[0i64, 500, 60000])), Sx::s(*rng.pick(&["R1", "follow up", "a,b", "x (y), z"]))]),
        11 => Sx::l(vec![Sx::n(6), Sx::s(*rng.pick(&["wf1", "order flow"]))]),
        12 | 13 => Sx::l(vec![Sx::n(8), Sx::s(*rng.pick(&["Notify", "sendEmail", "Audit2"])), Sx::l((0..rng.below(5)).map(|_| gen_arg(rng, meta, quotey)).collect())]),
        _ => Sx::l(vec![Sx::n(9), Sx::s(*rng.pick(&["Car", "User"])), Sx::s(*rng.pick(&["setSpeed", "reset"])), Sx::l((0..rng.below(4)).map(|_| gen_arg(rng, meta, quotey)).collect())]),
    }
}

fn gen_attrs(rng: &mut Rng) -> Vec<Sx> {
    let mut v = vec![];
    if rng.chance(2, 3) { v.push(Sx::l(vec![Sx::n(0), Sx::i(if rng.chance(1, 8) { *rng.pick(&[i32::MAX as i64, i32::MIN as i64, -1, -100]) } else { rng.range(0, 120) as i64 })])); }
    if rng.chance(1, 3) { v.push(Sx::l(vec![Sx::n(1), Sx::n(rng.below(2))])); }
    if rng.chance(1, 4) { v.push(Sx::l(vec![Sx::n(2), Sx::n(rng.below(2))])); }
    if rng.chance(1, 3) { v.push(Sx::l(vec![Sx::n(3), Sx::s(*rng.pick(GROUPS))])); }
    if rng.chance(1, 4) { v.push(Sx::l(vec![Sx::n(4), Sx::s(*rng.pick(GROUPS))])); }
    if rng.chance(1, 6) { v.push(Sx::l(vec![Sx::n(5), Sx::i(rng.range(1999, 2031) as i64), Sx::i(rng.range(1, 12) as i64), Sx::i(rng.range(1, 28) as i64)])); }
    if rng.chance(1, 6) { v.push(Sx::l(vec![Sx::n(6), Sx::i(rng.range(1999, 2031) as i64), Sx::i(rng.range(1, 12) as i64), Sx::i(rng.range(1, 28) as i64)])); }
    rng.shuffle(&mut v);
    v
}

/// which known limitation of the regular-expression front end a generated file exercises (0 = none);
/// recomputed in Coq from the syntax tree is not possible for layout (comments), so the tag is part of the case
fn gen_file(rng: &mut Rng, tier: Tier) -> Sx {
    let meta = rng.chance(1, 3);
    let nr = if rng.chance(1, 12) { 0 } else { *rng.pick(&[1u64, 1, 1, 2, 2, 3, 4, 8]) };
    let mut used: Vec<String> = vec![];
    let rules: Vec<Sx> = (0..nr).map(|i| {
        let kind = if rng.chance(1, 3) { 1u64 } else { 0 };
        let mut name = if kind == 1 { rng.pick(NAMES_B).to_string() } else { rng.pick(NAMES_Q).to_string() };
        if used.contains(&name) { name = format!("{}{}", name, i); }
        used.push(name.clone());
        let descr = if kind == 1 && rng.chance(1, 3) { Sx::l(vec![Sx::s(*rng.pick(DESCR))]) } else { Sx::l(vec![]) };
        let depth = *rng.pick(&[0u32, 1, 1, 2, 2, 3, 5]);
        let na = rng.range(1, 4);
        let _ = tier;
        Sx::l(vec![Sx::n(kind), Sx::s(&name), descr, Sx::n(rng.next() >> 16), Sx::l(gen_attrs(rng)), gen_gcond(rng, depth, meta),
                   Sx::l((0..na).map(|_| gen_action(rng, meta)).collect())])
    }).collect();
    // 1 file in 12 carries comments the regular-expression front end is known to trip over (feature 4)
    let feats = if nr > 0 && rng.chance(1, 12) { vec![Sx::n(4)] } else { vec![] };
    Sx::l(vec![Sx::n(0), Sx::l(rules), Sx::l(feats)])
}

pub fn gen(tier: Tier, rng: &mut Rng) -> Vec<Sx> {
    let mut v = vec![];
    let n = if tier == Tier::Thorough { 40000 } else { 4000 };
    for _ in 0..n { v.push(gen_file(rng, tier)); }
    // bare when clauses for the condition-tree parser
    let m = if tier == Tier::Thorough { 40000 } else { 4000 };
    for _ in 0..m {
        let depth = *rng.pick(&[0u32, 1, 2, 2, 3, 4, 5, 6]);
        let meta = rng.chance(1, 2);
        let c = gen_gcond(rng, depth, meta);
        let mut lay = Rng::new(rng.next());
        let text = pr_gcond(&c, &mut lay, false);
        v.push(Sx::l(vec![Sx::n(1), Sx::s(&text), c]));
    }
    gen_split(tier, rng, &mut v);
    v
}

// ---------- printer ----------
fn sep(lay: &mut Rng, multiline: bool) -> String {
    if !multiline { return (*lay.pick(&[" ", " ", " ", "  ", "   "])).to_string(); }
    match lay.below(12) {
        0..=5 => " ".into(), 6 => "  ".into(), 7 => "\n        ".into(), 8 => "\n".into(), 9 => "\t".into(),
        10 => format!(" {}\n    ", comment(lay)),                 // trailing comment, then a new line
        _ => format!("\n    {}\n    ", comment(lay)),              // a comment line of its own
    }
}
fn pr_gcond(c: &Sx, lay: &mut Rng, ml: bool) -> String {
    let compound = |x: &Sx| matches!(x.at(0).as_u(), 1 | 2);
    let wrap = |x: &Sx, lay: &mut Rng| if compound(x) { format!("({}{}{})", opt(lay, ml), pr_gcond(x, lay, ml), opt(lay, ml)) } else { pr_gcond(x, lay, ml) };
    match c.at(0).as_u() {
        0 => c01::pr_cond(c),
        1 => { let a = wrap(c.at(1), lay); let s1 = sep(lay, ml); let s2 = sep(lay, ml); let b = wrap(c.at(2), lay); format!("{}{}&&{}{}", a, s1, s2, b) }
        2 => { let a = wrap(c.at(1), lay); let s1 = sep(lay, ml); let s2 = sep(lay, ml); let b = wrap(c.at(2), lay); format!("{}{}||{}{}", a, s1, s2, b) }
        // a negation directly in front of another negation (`!!(..)`, `! !(..)`) as well as in front of a parenthesised operand
        3 if c.at(1).at(0).as_u() == 3 && lay.chance(1, 2) => format!("!{}{}", if lay.chance(1, 4) { " " } else { "" }, pr_gcond(c.at(1), lay, ml)),
        3 => format!("!{}({}{}{})", if lay.chance(1, 4) { " " } else { "" }, opt(lay, ml), pr_gcond(c.at(1), lay, ml), opt(lay, ml)),
        _ => format!("({}{}{})", opt(lay, ml), pr_gcond(c.at(1), lay, ml), opt(lay, ml)),
    }
}
fn opt(lay: &mut Rng, ml: bool) -> String { if lay.chance(1, 4) { sep(lay, ml) } else { String::new() } }

fn q(s: &str) -> String { format!("\"{}\"", s) }
fn pr_action(a: &Sx) -> String {
    let lits = |l: &Sx| l.as_l().iter().map(c01::pr_lit).collect::<Vec<_>>().join(", ");
    match a.at(0).as_u() {
        0 => format!("{} = {}", c01::pr_path(a.at(1)), c01::pr_aexp(a.at(2))),
        1 => format!("{} += {}", c01::pr_path(a.at(1)), c01::pr_aexp(a.at(2))),
        2 => format!("Log({})", q(&a.at(1).as_s())),
        3 => format!("retract(${})", a.at(1).as_s()),
        4 => format!("ActivateAgendaGroup({})", q(&a.at(1).as_s())),
        5 => format!("ScheduleRule({}, {})", a.at(1).as_i(), q(&a.at(2).as_s())),
        6 => format!("CompleteWorkflow({})", q(&a.at(1).as_s())),
        8 => format!("{}({})", a.at(1).as_s(), lits(a.at(2))),
        _ => format!("${}.{}({})", a.at(1).as_s(), a.at(2).as_s(), lits(a.at(3))),
    }
}
fn pr_attr(a: &Sx) -> String {
    match a.at(0).as_u() {
        0 => format!("salience {}", a.at(1).as_i()),
        1 => if a.at(1).as_u() == 1 { "no-loop true".into() } else { "no-loop".into() },
        2 => if a.at(1).as_u() == 1 { "lock-on-active true".into() } else { "lock-on-active".into() },
        3 => format!("agenda-group {}", q(&a.at(1).as_s())),
        4 => format!("activation-group {}", q(&a.at(1).as_s())),
        5 => format!("date-effective \"{:04}-{:02}-{:02}\"", a.at(1).as_i(), a.at(2).as_i(), a.at(3).as_i()),
        _ => format!("date-expires \"{:04}-{:02}-{:02}\"", a.at(1).as_i(), a.at(2).as_i(), a.at(3).as_i()),
    }
}
pub fn file_text(rules: &Sx, feats: &Sx) -> String {
    BADC.with(|b| b.set(feats.as_l().iter().any(|f| f.as_i() == 4)));
    let mut t = String::new();
    for r in rules.as_l() {
        let mut lay = Rng::new(r.at(3).as_u());
        if lay.chance(1, 4) { t.push_str(&format!("{}\n", comment(&mut lay))); }
        t.push_str("rule");
        t.push_str(&sep(&mut lay, false));
        if r.at(0).as_u() == 0 { t.push_str(&q(&r.at(1).as_s())); } else { t.push_str(&r.at(1).as_s()); }
        if let Some(d) = r.at(2).as_l().first() { t.push(' '); t.push_str(&q(&d.as_s())); }
        for a in r.at(4).as_l() { t.push_str(if lay.chance(1, 5) { "\n    " } else { " " }); t.push_str(&pr_attr(a)); }
        t.push_str(*lay.pick(&[" {", " {", "{", "\n{"]));
        t.push_str(*lay.pick(&["\n    when\n        ", " when ", "\n  when\n", "\n    // conditions\n    when\n        "]));
        t.push_str(&pr_gcond(r.at(5), &mut lay, true));
        t.push_str(*lay.pick(&["\n    then\n        ", " then ", "\n  then\n    ", "\n    then // actions\n        "]));
        for a in r.at(6).as_l() {
            t.push_str(&pr_action(a)); t.push(';');
            t.push_str(&match lay.below(6) { 0 => " ".to_string(), 1 => format!(" {}\n        ", comment(&mut lay)), 2 => "\n".to_string(), _ => "\n        ".to_string() });
        }
        t.push_str(*lay.pick(&["\n}\n\n", "}\n", " }\n// end\n", "\n}\n"]));
    }
    t
}

// ---------- observation ----------
fn ostr(o: &Option<String>) -> Sx { match o { None => Sx::l(vec![]), Some(s) => Sx::l(vec![Sx::s(s)]) } }
fn sx_of_action(a: &ActionType) -> Sx {
    match a {
        ActionType::Set { field, value } => Sx::l(vec![Sx::n(0), Sx::s(field), c01::sx_of_val(value)]),
        ActionType::Append { field, value } => Sx::l(vec![Sx::n(1), Sx::s(field), c01::sx_of_val(value)]),
        ActionType::Log { message } => Sx::l(vec![Sx::n(2), Sx::s(message)]),
        ActionType::Retract { object } => Sx::l(vec![Sx::n(3), Sx::s(object)]),
        ActionType::ActivateAgendaGroup { group } => Sx::l(vec![Sx::n(4), Sx::s(group)]),
        ActionType::ScheduleRule { rule_name, delay_ms } => Sx::l(vec![Sx::n(5), Sx::i(*delay_ms as i64), Sx::s(rule_name)]),
        ActionType::CompleteWorkflow { workflow_name } => Sx::l(vec![Sx::n(6), Sx::s(workflow_name)]),
        ActionType::SetWorkflowData { key, value } => Sx::l(vec![Sx::n(7), Sx::s(key), c01::sx_of_val(value)]),
        ActionType::Custom { action_type, params } => {
            let mut ks: Vec<(usize, &String)> = params.keys().map(|k| (k.parse::<usize>().unwrap_or(usize::MAX), k)).collect(); ks.sort();
            Sx::l(vec![Sx::n(8), Sx::s(action_type), Sx::l(ks.iter().map(|(_, k)| c01::sx_of_val(&params[*k])).collect())])
        }
        ActionType::MethodCall { object, method, args } => Sx::l(vec![Sx::n(9), Sx::s(object), Sx::s(method), Sx::l(args.iter().map(c01::sx_of_val).collect())]),
    }
}

/// the splitting layer below the regular expressions (Model/GrlSplit.v): (2 text) split_arguments, (3 text pattern)
/// find_outside_strings, (4 text) parse_then_clause - statement kinds and assigned fields
#[cfg(rre_verif)]
fn run_split(case: &Sx) -> (Sx, String) {
    use rust_rule_engine::types::ActionType as A;
    let text = case.at(1).as_s();
    match case.at(0).as_u() {
        2 => (Sx::l(GRLParser::verif_split_arguments(&text).iter().map(|p| Sx::s(p)).collect()), "split-arguments".into()),
        3 => (match GRLParser::verif_find_outside_strings(&text, &case.at(2).as_s()) { Some(i) => Sx::l(vec![Sx::us(i)]), None => Sx::l(vec![]) }, "find-outside".into()),
        5 => (match GRLParser::verif_split_when_then(&text) { Some((c, a)) => Sx::l(vec![Sx::s(&c), Sx::s(&a)]), None => Sx::l(vec![]) }, "when-then".into()),
        _ => match GRLParser::verif_parse_then_clause(&text) {
            Ok(acts) => (Sx::l(vec![Sx::n(0), Sx::l(acts.iter().map(|a| match a {
                A::Append { field, .. } => Sx::l(vec![Sx::n(0), Sx::s(field)]),
                A::Set { field, .. } => Sx::l(vec![Sx::n(1), Sx::s(field)]),
                _ => Sx::l(vec![Sx::n(2), Sx::l(vec![])]) }).collect())]), format!("then-clause {}", acts.len().min(4))),
            Err(_) => (Sx::l(vec![Sx::n(1)]), "then-clause error".into()),
        },
    }
}
#[cfg(not(rre_verif))]
fn run_split(_case: &Sx) -> (Sx, String) { (Sx::l(vec![Sx::n(9)]), "no hook".into()) }

/// texts for the splitting layer: statements / arguments built from fields, literals in both quote characters whose content is full of
/// separators, the other quote character, '=', "+=", parentheses and multi-byte characters, custom calls, blanks; plus raw token soups
fn gen_split(tier: Tier, rng: &mut Rng, v: &mut Vec<Sx>) {
    const INSIDE: [&str; 17] = [";", ",", "=", "+=", " ", "a", "(", ")", "é", "💥", "x;y", "k=v", "\t", ".", "}", "{", " then "];
    let lit = |rng: &mut Rng| -> String { let q = if rng.chance(1, 2) { '"' } else { '\'' }; let other = if q == '"' { "'" } else { "\"" };
        let k = rng.range(0, 5); let mut s = String::new(); s.push(q);
        for _ in 0..k { if rng.chance(1, 5) { s.push_str(other); } else { s.push_str(*rng.pick(&INSIDE)); } } s.push(q); s };
    let field = |rng: &mut Rng| -> String { (*rng.pick(&["X.a", "Order.total", "b", "User.é", "x_1"])).to_string() };
    let pad = |rng: &mut Rng| -> &'static str { *rng.pick(&["", " ", "  ", "\n", "\t", "\u{a0}"]) };
    let n = if tier == Tier::Thorough { 30000 } else { 3000 };
    for _ in 0..n {
        // a then clause
        let k = rng.range(0, 5); let mut s = String::new();
        for _ in 0..k {
            s.push_str(pad(rng));
            match rng.below(5) {
                0 | 1 => { s.push_str(&field(rng)); s.push_str(pad(rng)); s.push('='); s.push_str(pad(rng)); if rng.chance(2, 3) { s.push_str(&lit(rng)); } else { s.push_str(&format!("{}", rng.below(100))); } }
                2 => { s.push_str(&field(rng)); s.push_str(pad(rng)); s.push_str("+="); s.push_str(pad(rng)); s.push_str(&lit(rng)); }
                3 => { s.push_str(*rng.pick(&["Log", "Notify", "audit"])); s.push('('); let na = rng.range(0, 3); for i in 0..na { if i > 0 { s.push_str(", "); } if rng.chance(2, 3) { s.push_str(&lit(rng)); } else { s.push_str("7"); } } s.push(')'); }
                _ => { s.push_str(pad(rng)); }
            }
            s.push_str(pad(rng)); if rng.chance(9, 10) { s.push(';'); }
        }
        v.push(Sx::l(vec![Sx::n(4), Sx::s(&s)]));
        // an argument list
        let na = rng.range(0, 4); let mut a = String::new();
        for i in 0..na { if i > 0 { a.push(','); } a.push_str(pad(rng)); if rng.chance(2, 3) { a.push_str(&lit(rng)); } else { a.push_str(*rng.pick(&["1", "x", "X.a", "é", ""])); } a.push_str(pad(rng)); }
        v.push(Sx::l(vec![Sx::n(2), Sx::s(&a)]));
        // find_outside_strings on both, and on raw soups (unterminated literals included)
        let soup: String = (0..rng.range(0, 10)).map(|_| *rng.pick(&["\"", "'", "=", "+=", ";", ",", "a", " ", "é", "=="])).collect::<Vec<&str>>().concat();
        for t in [&s, &a, &soup] { v.push(Sx::l(vec![Sx::n(3), Sx::s(t), Sx::s(*rng.pick(&["=", "+=", ",", ";", "é", "}", "{", " then "]))])); }
        v.push(Sx::l(vec![Sx::n(2), Sx::s(&soup)]));
        // a rule body for split_when_then: the keywords with all kinds of white space (or none) around them, `when` / `then` inside words and
        // inside literals, missing clauses, several `then`
        let wsp = |rng: &mut Rng| -> &'static str { *rng.pick(&[" ", " ", "  ", "\t", "\u{a0}", "", " \t "]) };
        let mut b = String::new();
        b.push_str(wsp(rng)); if rng.chance(1, 6) { b.push_str("whenever "); }
        if rng.chance(9, 10) { b.push_str("when"); } b.push_str(wsp(rng));
        for _ in 0..rng.range(0, 4) { match rng.below(6) { 0 => b.push_str(&lit(rng)), 1 => b.push_str("X.a == "), 2 => b.push_str(" && "), 3 => b.push_str("\"now then go\""), 4 => b.push_str("athen "), _ => b.push_str("Y.b > 1") } }
        b.push_str(wsp(rng)); if rng.chance(9, 10) { b.push_str("then"); } b.push_str(wsp(rng));
        for _ in 0..rng.range(0, 3) { match rng.below(4) { 0 => b.push_str("X.c = 1;"), 1 => b.push_str(" then "), 2 => b.push_str(&lit(rng)), _ => b.push_str("Log(\"x then y\");") } }
        v.push(Sx::l(vec![Sx::n(5), Sx::s(&b)]));
        if rng.chance(1, 3) { v.push(Sx::l(vec![Sx::n(5), Sx::s(&soup)])); }
    }
}

pub fn run(case: &Sx) -> (Sx, String) {
    if case.at(0).as_u() >= 2 { return run_split(case); }
    if case.at(0).as_u() == 1 {
        let text = case.at(1).as_s();
        #[cfg(rre_verif)]
        { return match GRLParser::verif_parse_when_clause(&text) {
            Ok(g) => (Sx::l(vec![Sx::n(1), c01::sx_of_group(&g)]), "when-clause".into()),
            Err(_) => (Sx::l(vec![Sx::n(2)]), "when-clause error".into()),
        }; }
        #[cfg(not(rre_verif))]
        { let _ = text; return (Sx::l(vec![Sx::n(9)]), "no hook".into()); }
    }
    let text = file_text(case.at(1), case.at(2));
    let nrules = case.at(1).as_l().len();
    match GRLParser::parse_rules(&text) {
        Ok(rules) => {
            let rs: Vec<Sx> = rules.iter().map(|r| Sx::l(vec![Sx::s(&r.name), Sx::i(r.salience as i64), Sx::b(r.no_loop), Sx::b(r.lock_on_active),
                ostr(&r.agenda_group), ostr(&r.activation_group),
                match r.date_effective { Some(d) => Sx::l(vec![Sx::i(d.timestamp())]), None => Sx::l(vec![]) },
                match r.date_expires { Some(d) => Sx::l(vec![Sx::i(d.timestamp())]), None => Sx::l(vec![]) },
                c01::sx_of_group(&r.conditions), Sx::l(r.actions.iter().map(sx_of_action).collect())])).collect();
            (Sx::l(vec![Sx::n(0), Sx::l(rs)]), if nrules == 0 { "trivial: empty file".into() } else { format!("file {} rules", nrules.min(4)) })
        }
        Err(e) => (Sx::l(vec![Sx::n(1), Sx::s(&format!("{}", e).chars().take(80).collect::<String>())]), "file parse error".into()),
    }
}
