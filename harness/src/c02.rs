//! C02 / C03 — the forward-chaining loop (RustRuleEngine::execute_at_time) with every rule attribute.
//! case = ((rule ...) (f0 f1 f2 f3) (hop ...)) — encodings in coq/Model/EngineConc.v
use crate::rng::Rng;
use crate::sx::Sx;
use crate::Tier;
use chrono::{DateTime, Utc};
use rust_rule_engine::engine::engine::{EngineConfig, RustRuleEngine};
use rust_rule_engine::engine::facts::Facts;
use rust_rule_engine::engine::knowledge_base::KnowledgeBase;
use rust_rule_engine::engine::rule::{Condition, ConditionGroup, Rule};
use rust_rule_engine::types::{ActionType, Operator, Value};
use std::collections::HashMap;

fn gname(g: i128) -> String { if g == 0 { "MAIN".into() } else { format!("g{}", g) } }
fn ts(t: i128) -> DateTime<Utc> { DateTime::<Utc>::from_timestamp(1_700_000_000 + t as i64, 0).unwrap() }
fn oz(v: Option<i64>) -> Sx { match v { None => Sx::l(vec![]), Some(z) => Sx::l(vec![Sx::i(z)]) } }

struct G { name: i64, sal: i64, en: bool, nl: bool, lk: bool, agd: Option<i64>, acg: Option<i64>, fr: Option<i64>, un: Option<i64>, atoms: Vec<(i64, u64, i64)>, acts: Vec<Sx> }
fn enc_rule(r: &G) -> Sx {
    Sx::l(vec![Sx::i(r.name), Sx::i(r.sal), Sx::b(r.en), Sx::b(r.nl), Sx::b(r.lk), oz(r.agd), oz(r.acg), oz(r.fr), oz(r.un),
        Sx::l(r.atoms.iter().map(|(f, c, k)| Sx::l(vec![Sx::i(*f), Sx::n(*c), Sx::i(*k)])).collect()), Sx::l(r.acts.clone())])
}

fn gen_rule(rng: &mut Rng, name: i64, attrs: bool, self_trigger: bool) -> G {
    let natoms = rng.range(1, 2);
    let atoms = (0..natoms).map(|_| (rng.below(4) as i64, rng.below(6), rng.below(6) as i64)).collect();
    let mut acts = vec![];
    for _ in 0..rng.range(0, 2) {
        acts.push(match rng.below(if attrs { 5 } else { 4 }) {
            0 | 1 => Sx::l(vec![Sx::n(0), Sx::i(rng.below(4) as i64), Sx::i(rng.below(6) as i64)]),
            2 | 3 => Sx::l(vec![Sx::n(1), Sx::i(rng.below(4) as i64), Sx::i(*rng.pick(&[1i64, 1, 2, -1]))]),
            _ => Sx::l(vec![Sx::n(2), Sx::i(rng.below(3) as i64)]),
        });
    }
    if self_trigger && acts.is_empty() { acts.push(Sx::l(vec![Sx::n(1), Sx::i(rng.below(4) as i64), Sx::i(1)])); }
    G { name, sal: *rng.pick(&[0i64, 0, 5, 5, -3, 10, i32::MIN as i64, i32::MAX as i64]), en: !attrs || rng.chance(7, 8),
        nl: if self_trigger { rng.chance(1, 5) } else { rng.chance(1, 2) }, lk: attrs && rng.chance(1, 4),
        agd: if attrs && rng.chance(1, 2) { Some(rng.below(3) as i64) } else { None },
        acg: if attrs && rng.chance(1, 3) { Some(rng.below(2) as i64 + 1) } else { None },
        fr: if attrs && rng.chance(1, 5) { Some(rng.below(10) as i64) } else { None },
        un: if attrs && rng.chance(1, 5) { Some(rng.below(10) as i64) } else { None }, atoms, acts }
}

/// C02: attribute-heavy rule sets, several engine calls; C03: self-triggering sets, max_cycles 0..=64
pub fn gen_kind(tier: Tier, rng: &mut Rng, c03: bool) -> Vec<Sx> {
    let mut v = vec![];
    let n = if tier == Tier::Thorough { 150000 } else { 5000 };
    for _ in 0..n {
        let nr = rng.range(1, if c03 { 5 } else { 7 });
        // C03: a third of the self-triggering sets also carry agenda groups and ActivateAgendaGroup actions (the focus moves in the
        // middle of a pass; eligibility must be re-read on every pass of the cycle loop)
        let attrs = !c03 || rng.chance(1, 3);
        let rules: Vec<Sx> = (0..nr).map(|i| enc_rule(&gen_rule(rng, i as i64, attrs, c03))).collect();
        let store = Sx::l((0..4).map(|_| Sx::i(rng.below(6) as i64)).collect());
        let maxc = if c03 { rng.below(65) } else { *rng.pick(&[1u64, 2, 3, 10]) };
        let mut hops = vec![];
        let mut fresh = nr as i64;      // names of rules added later in the history stay distinct
        // C03: a quarter of the cases edit the rule base between two executes (remove a rule - possibly one whose no-loop firing is
        // recorded - and add a new one): every execute must still make its passes and stop at a fixpoint or at the bound
        if c03 && rng.chance(1, 4) {
            hops.push(Sx::l(vec![Sx::n(0), Sx::i(5), Sx::n(maxc)]));
            for _ in 0..rng.range(1, 3) {
                if rng.chance(1, 2) { hops.push(Sx::l(vec![Sx::n(7), Sx::i(rng.below(nr) as i64)])); }
                else { hops.push(Sx::l(vec![Sx::n(8), enc_rule(&gen_rule(rng, fresh, attrs, c03))])); fresh += 1; }
            }
        }
        let nh = if c03 { 1 } else { rng.range(1, 8) };
        for _ in 0..nh {
            hops.push(if c03 { Sx::l(vec![Sx::n(0), Sx::i(5), Sx::n(maxc)]) } else { match rng.below(15) {
                0..=5 => Sx::l(vec![Sx::n(0), Sx::i(rng.below(10) as i64), Sx::n(maxc)]),
                6..=7 => Sx::l(vec![Sx::n(1), Sx::i(rng.below(3) as i64)]),
                8 => Sx::l(vec![Sx::n(2)]), 9 => Sx::l(vec![Sx::n(3)]), 10 => Sx::l(vec![Sx::n(4)]),
                12 => Sx::l(vec![Sx::n(6), Sx::i(rng.below(3) as i64)]),
                13 => Sx::l(vec![Sx::n(7), Sx::i(rng.below(nr) as i64)]),
                14 => { fresh += 1; Sx::l(vec![Sx::n(8), enc_rule(&gen_rule(rng, fresh - 1, attrs, c03))]) }
                _ => Sx::l(vec![Sx::n(5), Sx::i(rng.below(nr) as i64), Sx::b(rng.chance(1, 2))]),
            } });
        }
        if !c03 && hops.iter().all(|h| h.at(0).as_u() != 0) { hops.push(Sx::l(vec![Sx::n(0), Sx::i(5), Sx::n(maxc)])); }
        v.push(Sx::l(vec![Sx::l(rules), store, Sx::l(hops)]));
    }
    v
}
pub fn gen(tier: Tier, rng: &mut Rng) -> Vec<Sx> { gen_kind(tier, rng, false) }
pub fn gen_c03(tier: Tier, rng: &mut Rng) -> Vec<Sx> { gen_kind(tier, rng, true) }

fn fname(f: i128) -> String { format!("F.f{}", f) }
fn mk_rule(r: &Sx) -> Rule {
    let ops = [Operator::Equal, Operator::NotEqual, Operator::LessThan, Operator::LessThanOrEqual, Operator::GreaterThan, Operator::GreaterThanOrEqual];
    let mut cg: Option<ConditionGroup> = None;
    for a in r.at(9).as_l() {
        let c = ConditionGroup::single(Condition::new(fname(a.at(0).as_i()), ops[a.at(1).as_us()].clone(), Value::Integer(a.at(2).as_i() as i64)));
        cg = Some(match cg { None => c, Some(l) => ConditionGroup::and(l, c) });
    }
    let mut acts = vec![ActionType::Append { field: "trace".into(), value: Value::Integer(r.at(0).as_i() as i64) }];
    for a in r.at(10).as_l() {
        acts.push(match a.at(0).as_u() {
            0 => ActionType::Set { field: fname(a.at(1).as_i()), value: Value::Integer(a.at(2).as_i() as i64) },
            1 => { let c = a.at(2).as_i(); ActionType::Set { field: fname(a.at(1).as_i()),
                     value: Value::Expression(if c >= 0 { format!("{} + {}", fname(a.at(1).as_i()), c) } else { format!("{} - {}", fname(a.at(1).as_i()), -c) }) } }
            _ => ActionType::ActivateAgendaGroup { group: gname(a.at(1).as_i()) },
        });
    }
    let mut rule = Rule::new(format!("r{}", r.at(0).as_i()), cg.unwrap(), acts).with_salience(r.at(1).as_i() as i32);
    rule.enabled = r.at(2).as_b(); rule.no_loop = r.at(3).as_b(); rule.lock_on_active = r.at(4).as_b();
    rule.agenda_group = r.at(5).as_l().first().map(|g| gname(g.as_i()));
    rule.activation_group = r.at(6).as_l().first().map(|g| format!("ag{}", g.as_i()));
    rule.date_effective = r.at(7).as_l().first().map(|t| ts(t.as_i()));
    rule.date_expires = r.at(8).as_l().first().map(|t| ts(t.as_i()));
    rule
}

pub fn run(case: &Sx) -> (Sx, String) {
    let kb = KnowledgeBase::new("kb");
    for r in case.at(0).as_l() { kb.add_rule(mk_rule(r)).unwrap(); }
    let maxc = case.at(2).as_l().iter().find(|h| h.at(0).as_u() == 0).map(|h| h.at(2).as_us()).unwrap_or(1);
    let mut eng = RustRuleEngine::with_config(kb, EngineConfig { max_cycles: maxc, timeout: None, enable_stats: false, debug_mode: false });
    let facts = Facts::new();
    let mut f = HashMap::new();
    for (i, v) in case.at(1).as_l().iter().enumerate() { f.insert(format!("f{}", i), Value::Integer(v.as_i() as i64)); }
    facts.add_value("F", Value::Object(f)).unwrap();
    let mut obs = vec![]; let (mut total_fired, mut max_cycles_seen, mut nexec) = (0usize, 0usize, 0);
    let active = |e: &RustRuleEngine| -> Sx { let g = e.get_active_agenda_group(); Sx::i(if g == "MAIN" { 0 } else { g[1..].parse::<i64>().unwrap() }) };
    for h in case.at(2).as_l() {
        match h.at(0).as_u() {
            0 => {
                nexec += 1;
                facts.set("trace", Value::Array(vec![]));
                let r = eng.execute_at_time(&facts, ts(h.at(1).as_i())).unwrap();
                let trace: Vec<Sx> = match facts.get("trace") { Some(Value::Array(a)) => a.iter().map(|v| match v { Value::Integer(i) => Sx::i(*i), _ => Sx::i(-1) }).collect(), _ => vec![] };
                total_fired += r.rules_fired; max_cycles_seen = max_cycles_seen.max(r.cycle_count);
                let vals: Vec<Sx> = (0..4).map(|i| match facts.get_nested(&format!("F.f{}", i)) { Some(Value::Integer(z)) => Sx::i(z), _ => Sx::i(-99999) }).collect();
                obs.push(Sx::l(vec![Sx::us(r.cycle_count), Sx::us(r.rules_fired), Sx::l(trace), Sx::l(vals), active(&eng)]));
            }
            1 => { eng.set_agenda_focus(&gname(h.at(1).as_i())); obs.push(Sx::l(vec![active(&eng)])); }
            2 => { eng.pop_agenda_focus(); obs.push(Sx::l(vec![active(&eng)])); }
            3 => { eng.clear_agenda_focus(); obs.push(Sx::l(vec![active(&eng)])); }
            4 => { eng.reset_no_loop_tracking(); obs.push(Sx::l(vec![active(&eng)])); }
            6 => { eng.activate_agenda_group(gname(h.at(1).as_i())); obs.push(Sx::l(vec![active(&eng)])); }
            7 => { let _ = eng.knowledge_base().remove_rule(&format!("r{}", h.at(1).as_i())); obs.push(Sx::l(vec![active(&eng)])); }
            8 => { let _ = eng.knowledge_base().add_rule(mk_rule(h.at(1))); obs.push(Sx::l(vec![active(&eng)])); }
            _ => { let _ = eng.knowledge_base().set_rule_enabled(&format!("r{}", h.at(1).as_i()), h.at(2).as_b()); obs.push(Sx::l(vec![active(&eng)])); }
        }
    }
    let label = if total_fired == 0 { "trivial".to_string() } else { format!("fired{} cycles{}{}", total_fired.min(9), max_cycles_seen.min(9), if nexec > 1 { " multi-exec" } else { "" }) };
    (Sx::l(obs), label)
}
