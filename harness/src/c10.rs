//! C10 — undo frames on the real Facts store (tag 0) [query part: tag 1, see c09.rs].
//! case = (0 nk ((k v) ...) (op ...)) ; v = (0 z) | (1 ((f z) ...))
//! op = (0) begin | (1) commit | (2) rollback | (3 k v) | (4 k f z) | (5 k)
use crate::rng::Rng;
use crate::sx::Sx;
use crate::Tier;
use rust_rule_engine::engine::facts::Facts;
use rust_rule_engine::types::Value;
use std::collections::HashMap;

fn kname(k: u64) -> String { format!("K{}", k) }
fn fname(f: u64) -> String { format!("f{}", f) }

fn dec_value(s: &Sx) -> Value {
    if s.at(0).as_u() == 0 { Value::Integer(s.at(1).as_i() as i64) }
    else {
        let mut m = HashMap::new();
        for p in s.at(1).as_l() { m.insert(fname(p.at(0).as_u()), Value::Integer(p.at(1).as_i() as i64)); }
        Value::Object(m)
    }
}
fn enc_value(v: &Value) -> Sx {
    match v {
        Value::Integer(z) => Sx::l(vec![Sx::n(0), Sx::i(*z)]),
        Value::Object(m) => Sx::l(vec![Sx::n(1), Sx::l((0..2).map(|f| Sx::opt(m.get(&fname(f)).map(|x| match x { Value::Integer(z) => Sx::i(*z), _ => Sx::i(-777) }))).collect())]),
        _ => Sx::l(vec![Sx::n(9)]),
    }
}

fn vint(z: i64) -> Sx { Sx::l(vec![Sx::n(0), Sx::i(z)]) }
fn vobj(fs: &[(u64, i64)]) -> Sx { Sx::l(vec![Sx::n(1), Sx::l(fs.iter().map(|(f, z)| Sx::l(vec![Sx::n(*f), Sx::i(*z)])).collect())]) }

fn all_ops(nk: u64) -> Vec<Sx> {
    let mut v = vec![Sx::l(vec![Sx::n(0)]), Sx::l(vec![Sx::n(1)]), Sx::l(vec![Sx::n(2)])];
    for k in 0..nk {
        v.push(Sx::l(vec![Sx::n(3), Sx::n(k), vint(1)]));
        v.push(Sx::l(vec![Sx::n(5), Sx::n(k)]));
    }
    v.push(Sx::l(vec![Sx::n(3), Sx::n(0), vobj(&[(0, 5)])]));
    v.push(Sx::l(vec![Sx::n(4), Sx::n(0), Sx::n(1), Sx::i(9)]));
    v.push(Sx::l(vec![Sx::n(4), Sx::n(1), Sx::n(0), Sx::i(9)]));
    v
}

pub fn gen(tier: Tier, rng: &mut Rng) -> Vec<Sx> {
    let mut v = vec![];
    // exhaustive: all sequences up to length L over the op alphabet above (2 keys), two initial stores
    let l = if tier == Tier::Thorough { 6 } else { 5 };
    let ops = all_ops(2);
    let inits = vec![Sx::l(vec![]), Sx::l(vec![Sx::l(vec![Sx::n(0), vobj(&[(0, 0)])]), Sx::l(vec![Sx::n(1), vint(0)])])];
    for init in &inits {
        let mut idx = vec![0usize; 0];
        // iterative enumeration of all sequences of length 1..=l
        for len in 1..=l {
            idx.clear(); idx.resize(len, 0);
            loop {
                // prune: must start with begin to be interesting at len >= 4
                if !(len >= 4 && idx[0] != 0) {
                    v.push(Sx::l(vec![Sx::n(0), Sx::n(2), init.clone(), Sx::l(idx.iter().map(|i| ops[*i].clone()).collect())]));
                }
                let mut p = len;
                loop { if p == 0 { break; } p -= 1; idx[p] += 1; if idx[p] < ops.len() { break; } idx[p] = 0; if p == 0 { p = usize::MAX; break; } }
                if p == usize::MAX { break; }
            }
        }
    }
    // random: up to 10 ops over 3 keys, richer values
    let n = if tier == Tier::Thorough { 400000 } else { 20000 };
    for _ in 0..n {
        let nk = 3u64;
        let mut init = vec![];
        for k in 0..nk { if rng.chance(1, 2) { init.push(Sx::l(vec![Sx::n(k), if rng.chance(1, 2) { vint(rng.below(3) as i64) } else { vobj(&[(rng.below(2), rng.below(3) as i64)]) }])); } }
        let len = rng.range(2, 10) as usize;
        let mut ops = vec![];
        let mut depth = 0;
        for _ in 0..len {
            let r = rng.below(12);
            let o = if r < 2 || depth == 0 && r < 4 { depth += 1; Sx::l(vec![Sx::n(0)]) }
                else if r < 3 { if depth > 0 { depth -= 1; } Sx::l(vec![Sx::n(1)]) }
                else if r < 5 { if depth > 0 { depth -= 1; } Sx::l(vec![Sx::n(2)]) }
                else if r < 8 { Sx::l(vec![Sx::n(3), Sx::n(rng.below(nk)), if rng.chance(2, 3) { vint(rng.below(4) as i64) } else { vobj(&[(rng.below(2), rng.below(4) as i64)]) }]) }
                else if r < 10 { Sx::l(vec![Sx::n(4), Sx::n(rng.below(nk)), Sx::n(rng.below(2)), Sx::i(rng.below(4) as i64 + 10)]) }
                else { Sx::l(vec![Sx::n(5), Sx::n(rng.below(nk))]) };
            ops.push(o);
        }
        v.push(Sx::l(vec![Sx::n(0), Sx::n(nk), Sx::l(init), Sx::l(ops)]));
    }
    // query part: backward-chaining queries whose failed proof attempts derive intermediate facts
    v.extend(crate::c09::gen_c10_queries(tier, rng));
    v
}

pub fn run(case: &Sx) -> (Sx, String) {
    if case.at(0).as_u() != 0 { return crate::c09::run_c10_query(case); }
    let nk = case.at(1).as_u();
    let f = Facts::new();
    for kv in case.at(2).as_l() { f.add_value(&kname(kv.at(0).as_u()), dec_value(kv.at(1))).unwrap(); }
    let mut obs = vec![];
    let mut depth = 0usize; let mut maxdepth = 0usize; let mut nested_commit = false; let mut rb = 0;
    for o in case.at(3).as_l() {
        let res: u64 = match o.at(0).as_u() {
            0 => { f.begin_undo_frame(); depth += 1; maxdepth = maxdepth.max(depth); 0 }
            1 => { f.commit_undo_frame(); if depth >= 2 { nested_commit = true; } if depth > 0 { depth -= 1; } 0 }
            2 => { f.rollback_undo_frame(); if depth > 0 { depth -= 1; rb += 1; } 0 }
            3 => { f.set(&kname(o.at(1).as_u()), dec_value(o.at(2))); 0 }
            4 => {
                let path = format!("{}.{}", kname(o.at(1).as_u()), fname(o.at(2).as_u()));
                match f.set_nested(&path, Value::Integer(o.at(3).as_i() as i64)) {
                    Ok(()) => 0,
                    Err(rust_rule_engine::errors::RuleEngineError::FieldNotFound { .. }) => 1,
                    Err(rust_rule_engine::errors::RuleEngineError::TypeMismatch { .. }) => 2,
                    Err(_) => 3,
                }
            }
            _ => { f.remove(&kname(o.at(1).as_u())); 0 }
        };
        let keys: Vec<Sx> = (0..nk).map(|k| {
            Sx::l(vec![Sx::opt(f.get(&kname(k)).map(|v| enc_value(&v))),
                       Sx::opt(f.get_fact_type(&kname(k)).map(|t| Sx::n(if t == "Value" { 1 } else { 2 })))])
        }).collect();
        obs.push(Sx::l(vec![Sx::n(res), Sx::l(keys)]));
    }
    let label = if rb > 0 && maxdepth >= 2 { format!("nested{} rollback", if nested_commit { "+commit" } else { "" }) } else if rb > 0 { "rollback".into() } else { "trivial".into() };
    (Sx::l(obs), label)
}
