//! C17 — ProofGraph: insert_proof / invalidate_handle / is_proven in every order.
//! case = (nh nk (op ...)) ; op = (0 h key (p ...)) | (1 h) | (2 key)
use crate::rng::Rng;
use crate::sx::Sx;
use crate::Tier;
use rust_rule_engine::backward::proof_graph::{FactKey, ProofGraph};
use rust_rule_engine::rete::FactHandle;

fn key(k: u64) -> FactKey { FactKey::from_pattern(&format!("K{}.f == {}", k, k)) }

#[derive(Clone, Debug)]
enum Op { Ins(u64, u64, Vec<u64>), Inv(u64), Prv(u64) }

fn enc(nh: u64, nk: u64, ops: &[Op]) -> Sx {
    Sx::l(vec![Sx::n(nh), Sx::n(nk), Sx::l(ops.iter().map(|o| match o {
        Op::Ins(h, k, p) => Sx::l(vec![Sx::n(0), Sx::n(*h), Sx::n(*k), Sx::ns(p.iter().cloned())]),
        Op::Inv(h) => Sx::l(vec![Sx::n(1), Sx::n(*h)]),
        Op::Prv(k) => Sx::l(vec![Sx::n(2), Sx::n(*k)]),
    }).collect())])
}

/// exhaustive enumeration of op sequences; premises are never handles that were invalidated
/// directly; (indirect invalidation is detected by the Coq-side side condition)
fn enumerate(depth: usize, nh: u64, invalidated: u64, cur: &mut Vec<Op>, out: &mut Vec<Sx>) {
    if !cur.is_empty() { out.push(enc(nh, nh, cur)); }
    if depth == 0 { return; }
    for h in 0..nh {
        // premise subsets of size <= 2 among handles != h that were not invalidated
        let cands: Vec<u64> = (0..nh).filter(|p| *p != h && invalidated >> p & 1 == 0).collect();
        let mut subsets: Vec<Vec<u64>> = vec![vec![]];
        for i in 0..cands.len() { subsets.push(vec![cands[i]]); for j in i + 1..cands.len() { subsets.push(vec![cands[i], cands[j]]); } }
        for ps in subsets {
            cur.push(Op::Ins(h, h, ps));
            enumerate(depth - 1, nh, invalidated, cur, out);
            cur.pop();
        }
    }
    for h in 0..nh {
        cur.push(Op::Inv(h));
        enumerate(depth - 1, nh, invalidated | 1 << h, cur, out);
        cur.pop();
    }
}

pub fn gen(tier: Tier, rng: &mut Rng) -> Vec<Sx> {
    let mut v = vec![];
    let (d, nh) = if tier == Tier::Thorough { (4, 4) } else { (4, 3) };
    enumerate(d, nh, 0, &mut vec![], &mut v);
    if tier == Tier::Thorough { enumerate(5, 3, 0, &mut vec![], &mut v); }
    let n = if tier == Tier::Thorough { 300000 } else { 12000 };
    for _ in 0..n {
        let nh = 5u64;
        let len = rng.range(2, 9) as usize;
        let mut inval: u64 = 0;
        let mut ops = vec![];
        for _ in 0..len {
            let r = rng.below(10);
            if r < 6 {
                let h = rng.below(nh);
                let k = if rng.chance(1, 8) { rng.below(nh) } else { h };
                let mut ps = vec![];
                for _ in 0..rng.below(3) { let p = rng.below(nh); if p != h && inval >> p & 1 == 0 && !ps.contains(&p) { ps.push(p); } }
                if rng.chance(1, 20) { ps.push(h); } // self-premise
                ops.push(Op::Ins(h, k, ps));
            } else if r < 9 { let h = rng.below(nh); inval |= 1 << h; ops.push(Op::Inv(h)); }
            else { ops.push(Op::Prv(rng.below(nh))); }
        }
        v.push(enc(nh, nh, &ops));
    }
    v
}

pub fn run(case: &Sx) -> (Sx, String) {
    let nh = case.at(0).as_u(); let nk = case.at(1).as_u();
    let mut g = ProofGraph::new();
    let mut obs = vec![];
    let mut ninv = 0; let mut nins = 0; let mut late_premise = false;
    let mut inserted: u64 = 0;
    for o in case.at(2).as_l() {
        let res = match o.at(0).as_u() {
            0 => {
                let h = o.at(1).as_u(); let ps: Vec<u64> = o.at(3).as_l().iter().map(|x| x.as_u()).collect();
                if ps.iter().any(|p| inserted >> p & 1 == 0) { late_premise = true; }
                inserted |= 1 << h; nins += 1;
                g.insert_proof(FactHandle::new(h), key(o.at(2).as_u()), "r".into(),
                    ps.iter().map(|p| FactHandle::new(*p)).collect(), vec![]);
                true
            }
            1 => { ninv += 1; g.invalidate_handle(&FactHandle::new(o.at(1).as_u())); true }
            _ => g.is_proven(&key(o.at(1).as_u())),
        };
        let nodes: Vec<Sx> = (0..nh).map(|h| match g.get_node(&FactHandle::new(h)) {
            Some(n) => Sx::l(vec![Sx::b(true), Sx::b(n.valid), Sx::us(n.justifications.len())]),
            None => Sx::l(vec![Sx::b(false), Sx::b(false), Sx::n(0)]),
        }).collect();
        let proven: Vec<Sx> = (0..nk).map(|k| Sx::b(g.is_proven(&key(k)))).collect();
        obs.push(Sx::l(vec![Sx::b(res), Sx::l(nodes), Sx::l(proven)]));
    }
    let label = if ninv > 0 && nins > 1 { format!("inv{} {}", ninv.min(3), if late_premise { "dependent-before-premise" } else { "premise-first" }) } else { "trivial".into() };
    (Sx::l(obs), label)
}
