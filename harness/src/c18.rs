//! C18 — ModuleManager: creation, deletion, exports, rule assignment, imports (incl. re-exports).
//! case = ((modname ...) (rulename ...) (op ...)) — see coq/Model/Module.v for the op encoding.
use crate::rng::Rng;
use crate::sx::Sx;
use crate::Tier;
use rust_rule_engine::engine::module::*;

const MODS: [&str; 4] = ["MAIN", "A", "B", "C"];
const RULES: [&str; 3] = ["ab", "ac", "bc"];
const PATS: [&str; 6] = ["*", "a*", "*c", "ab", "?ALL", "bc"];

fn universe() -> (Sx, Sx) {
    (Sx::l(MODS.iter().map(|m| Sx::s(m)).collect()), Sx::l(RULES.iter().map(|m| Sx::s(m)).collect()))
}

fn op_create(m: usize) -> Sx { Sx::l(vec![Sx::n(0), Sx::s(MODS[m])]) }
fn op_delete(m: usize) -> Sx { Sx::l(vec![Sx::n(1), Sx::s(MODS[m])]) }
fn op_export(m: usize, e: u64, pat: usize) -> Sx {
    let ex = match e { 0 => Sx::l(vec![Sx::n(0)]), 1 => Sx::l(vec![Sx::n(1)]),
        _ => Sx::l(vec![Sx::n(2), Sx::l(vec![Sx::l(vec![Sx::n(if e == 2 { 0 } else { 3 }), Sx::s(PATS[pat])])])]) };
    Sx::l(vec![Sx::n(2), Sx::s(MODS[m]), ex])
}
fn op_addrule(m: usize, r: usize) -> Sx { Sx::l(vec![Sx::n(3), Sx::s(MODS[m]), Sx::s(RULES[r])]) }
fn op_import(to: usize, from: usize, t: u64, pat: usize, re: Option<usize>) -> Sx {
    Sx::l(vec![Sx::n(4), Sx::s(MODS[to]), Sx::s(MODS[from]), Sx::n(t), Sx::s(PATS[pat]),
        match re { None => Sx::l(vec![]), Some(p) => Sx::l(vec![Sx::l(vec![Sx::s(PATS[p])])]) }])
}

fn alphabet(small: bool) -> Vec<Sx> {
    let mut v = vec![];
    let ms: Vec<usize> = if small { vec![1, 2, 3] } else { vec![0, 1, 2, 3] };
    for &m in &ms { if m != 0 { v.push(op_create(m)); v.push(op_delete(m)); } }
    for &m in &ms { v.push(op_export(m, 0, 0)); if !small { v.push(op_export(m, 2, 1)); } }
    for &m in &ms { v.push(op_addrule(m, 0)); if !small { v.push(op_addrule(m, 2)); } }
    for &to in &ms { for &from in &ms {
        v.push(op_import(to, from, 0, 0, None));
        if !small { v.push(op_import(to, from, 2, 1, None)); v.push(op_import(to, from, 4, 0, Some(0)));
                    // re-exports of a narrower pattern: a module may carry several re-exporting imports with different patterns
                    v.push(op_import(to, from, 0, 0, Some(3))); v.push(op_import(to, from, 0, 0, Some(1))); v.push(op_import(to, from, 0, 5, Some(2))); }
    } }
    v
}

fn full_pick(rng: &mut Rng) -> Sx { let f = alphabet(false); rng.pick(&f).clone() }

pub fn gen(tier: Tier, rng: &mut Rng) -> Vec<Sx> {
    let (u, r) = universe();
    let mut v = vec![];
    // exhaustive short sequences over the small alphabet (3 user modules): all of length <= 3,
    // and all of length 4/5 that start by creating A, B (and C)
    let alpha = alphabet(true);
    let mk = |ops: Vec<Sx>| Sx::l(vec![u.clone(), r.clone(), Sx::l(ops)]);
    for a in &alpha { v.push(mk(vec![a.clone()])); }
    for a in &alpha { for b in &alpha { v.push(mk(vec![a.clone(), b.clone()])); } }
    let pre2 = vec![op_create(1), op_create(2)];
    let pre3 = vec![op_create(1), op_create(2), op_create(3)];
    for a in &alpha { for b in &alpha { for c in &alpha {
        let mut o = pre2.clone(); o.extend(vec![a.clone(), b.clone(), c.clone()]); v.push(mk(o));
    } } }
    if tier == Tier::Thorough {
        for a in &alpha { for b in &alpha { for c in &alpha { for d in &alpha {
            let mut o = pre3.clone(); o.extend(vec![a.clone(), b.clone(), c.clone(), d.clone()]); v.push(mk(o));
        } } } }
    }
    // re-export chains: B imports from X twice (or from X and Y) with two different re-export patterns, A imports B; rules owned by the sources
    let nre = if tier == Tier::Thorough { 20000 } else { 1500 };
    for _ in 0..nre {
        let mut ops = vec![op_create(1), op_create(2)];
        let src2 = if rng.chance(1, 2) { ops.push(op_create(3)); 3 } else { 0 };
        for r in 0..3 { if rng.chance(3, 4) { ops.push(op_addrule(if rng.chance(1, 2) { 0 } else { src2 }, r)); } }
        if rng.chance(3, 4) { ops.push(op_export(0, 0, 0)); } if src2 != 0 && rng.chance(3, 4) { ops.push(op_export(src2, 0, 0)); }
        let p1 = rng.below(6) as usize; let p2 = rng.below(6) as usize;
        ops.push(op_import(2, 0, 0, 0, Some(p1)));
        ops.push(op_import(2, src2, 0, 0, Some(p2)));
        if rng.chance(1, 3) { ops.push(op_import(2, 0, 0, 0, None)); }
        ops.push(op_import(1, 2, 0, 0, None));
        if rng.chance(1, 4) { ops.push(full_pick(rng)); }
        v.push(mk(ops));
    }
    // random sequences to length 7 over the full alphabet, biased to build import chains first
    let full = alphabet(false);
    let n = if tier == Tier::Thorough { 150000 } else { 8000 };
    for _ in 0..n {
        let len = rng.range(3, 7) as usize;
        let mut ops = vec![];
        if rng.chance(3, 4) { ops.push(op_create(1)); ops.push(op_create(2)); if rng.chance(1, 2) { ops.push(op_create(3)); } }
        for _ in 0..len { ops.push(rng.pick(&full).clone()); }
        v.push(mk(ops));
    }
    v
}

fn dec_export(e: &Sx) -> ExportList {
    match e.at(0).as_u() {
        0 => ExportList::All, 1 => ExportList::None,
        _ => ExportList::Specific(e.at(1).as_l().iter().map(|it| ExportItem {
            item_type: match it.at(0).as_u() { 0 => ItemType::Rule, 1 => ItemType::Template, 2 => ItemType::Fact, _ => ItemType::All },
            pattern: it.at(1).as_s() }).collect()),
    }
}

pub fn run(case: &Sx) -> (Sx, String) {
    let mods: Vec<String> = case.at(0).as_l().iter().map(|s| s.as_s()).collect();
    let rules: Vec<String> = case.at(1).as_l().iter().map(|s| s.as_s()).collect();
    let mut mm = ModuleManager::new();
    let mut obs = vec![];
    let (mut nimp, mut ndel, mut nre, mut nrefused) = (0, 0, 0, 0);
    for o in case.at(2).as_l() {
        let res = match o.at(0).as_u() {
            0 => mm.create_module(o.at(1).as_s()).is_ok(),
            1 => { let r = mm.delete_module(&o.at(1).as_s()).is_ok(); if r { ndel += 1; } r }
            2 => mm.export_all_from(&o.at(1).as_s(), dec_export(o.at(2))).is_ok(),
            3 => match mm.get_module_mut(&o.at(1).as_s()) { Ok(m) => { m.add_rule(o.at(2).as_s()); true } Err(_) => false },
            _ => {
                let t = match o.at(3).as_u() { 0 => ImportType::AllRules, 1 => ImportType::AllTemplates, 2 => ImportType::Rules, 3 => ImportType::Templates, _ => ImportType::All };
                let re = if o.at(5).as_l().is_empty() { None } else { nre += 1; Some(ReExport { patterns: o.at(5).at(0).as_l().iter().map(|p| p.as_s()).collect(), transitive: true }) };
                let r = mm.import_from_with_reexport(&o.at(1).as_s(), &o.at(2).as_s(), t, o.at(4).as_s(), re).is_ok();
                if r { nimp += 1; } else { nrefused += 1; }
                r
            }
        };
        let g = mm.get_import_graph();
        let per_mod: Vec<Sx> = mods.iter().map(|n| match mm.get_module(n) {
            Err(_) => Sx::l(vec![Sx::b(false), Sx::l(vec![]), Sx::l(vec![])]),
            Ok(m) => Sx::l(vec![Sx::b(true),
                Sx::l(m.get_imports().iter().map(|i| Sx::s(&i.from_module)).collect()),
                Sx::l(mods.iter().map(|n2| Sx::b(g.get(n).map(|s| s.contains(n2)).unwrap_or(false))).collect())]),
        }).collect();
        let vis: Vec<Sx> = mods.iter().map(|n| Sx::l(rules.iter().map(|r| match mm.is_rule_visible(r, n) { Ok(false) => Sx::n(0), Ok(true) => Sx::n(1), Err(_) => Sx::n(2) }).collect())).collect();
        let lst: Vec<Sx> = mods.iter().map(|n| match mm.get_visible_rules(n) {
            Err(_) => Sx::l(vec![Sx::n(2)]),
            Ok(l) => Sx::l(rules.iter().map(|r| Sx::b(l.contains(r))).collect()),
        }).collect();
        obs.push(Sx::l(vec![Sx::b(res), Sx::l(per_mod), Sx::l(vis), Sx::l(lst)]));
    }
    let label = if nimp == 0 { "trivial".to_string() } else {
        format!("imports{}{}{}{}", nimp.min(3), if ndel > 0 { " delete" } else { "" }, if nre > 0 { " reexport" } else { "" }, if nrefused > 0 { " refused" } else { "" }) };
    (Sx::l(obs), label)
}
