//! C06 — IncrementalEngine: insert / update / retract / fire_all / reset over single-type rules.
//! case = (sorted ((name type prio noloop cond action) ...) (op ...)) — see coq/Model/Incremental.v
use crate::rng::Rng;
use crate::sx::Sx;
use crate::Tier;
use rust_rule_engine::rete::facts::{FactValue, TypedFacts};
use rust_rule_engine::rete::network::ReteUlNode;
use rust_rule_engine::rete::propagation::IncrementalEngine;
use rust_rule_engine::rete::working_memory::FactHandle;
use rust_rule_engine::rete::{ActionResult, AlphaNode, TypedReteUlRule};
use std::sync::{Arc, Mutex};

fn tname(t: i128) -> String { format!("T{}", t) }

fn gen_cond(rng: &mut Rng, depth: u32) -> Sx {
    if depth == 0 || rng.chance(3, 5) {
        // half of the atoms are "mostly true" (>= 0, != 4, <= 4) so that firings are frequent
        return if rng.chance(1, 2) { Sx::l(vec![Sx::n(0), Sx::i(rng.below(3) as i64), Sx::n(rng.below(6)), Sx::i(rng.below(5) as i64)]) }
               else { let (op, k) = *rng.pick(&[(5u64, 0i64), (1, 4), (3, 4), (5, 1)]); Sx::l(vec![Sx::n(0), Sx::i(rng.below(3) as i64), Sx::n(op), Sx::i(k)]) };
    }
    match rng.below(3) {
        0 => Sx::l(vec![Sx::n(1), gen_cond(rng, depth - 1), gen_cond(rng, depth - 1)]),
        1 => Sx::l(vec![Sx::n(2), gen_cond(rng, depth - 1), gen_cond(rng, depth - 1)]),
        _ => Sx::l(vec![Sx::n(3), gen_cond(rng, depth - 1)]),
    }
}
fn gen_data(rng: &mut Rng) -> Sx {
    let mut kv = vec![];
    for f in 0..3 { if rng.chance(5, 6) { kv.push(Sx::l(vec![Sx::i(f), Sx::i(rng.below(5) as i64)])); } }
    Sx::l(kv)
}

pub fn gen(tier: Tier, rng: &mut Rng) -> Vec<Sx> {
    let mut v = vec![];
    let n = if tier == Tier::Thorough { 15000 } else { 5000 };
    for i in 0..n {
        let sorted = i % 2 == 1;        // odd: inert actions, many facts per type, order-insensitive; even: effects, <= 1 live fact per type
        let nr = rng.range(2, 6);
        let mut prios: Vec<i64> = vec![-5, -1, 0, 3, 7, 20, i32::MIN as i64, i32::MAX as i64, 11]; rng.shuffle(&mut prios);
        let all_noloop = sorted && rng.chance(2, 3);
        let rules: Vec<Sx> = (0..nr).map(|j| {
            let action = if sorted { Sx::l(vec![Sx::n(0)]) } else { match rng.below(4) {
                0 | 1 => Sx::l(vec![Sx::n(0)]), 2 => Sx::l(vec![Sx::n(1), Sx::i(rng.below(3) as i64), Sx::i(rng.below(5) as i64)]), _ => Sx::l(vec![Sx::n(2)]) } };
            // effects + no no-loop would refire up to the bound; keep such rules rare
            let noloop = all_noloop || if sorted { true } else { rng.chance(5, 6) };
            Sx::l(vec![Sx::i(j as i64), Sx::i(rng.below(3) as i64), Sx::i(if sorted { *rng.pick(&[0i64, 0, 5]) } else { prios[j as usize] }), Sx::b(noloop), gen_cond(rng, 2), action])
        }).collect();
        let mut ops = vec![]; let mut next = 1i64; let mut live: Vec<(i64, i64)> = vec![];   // (handle, type)
        for _ in 0..rng.range(3, 12) {
            let r = rng.below(10);
            if r < 4 && next <= 6 {
                let t = rng.below(3) as i64;
                if !sorted && live.iter().any(|(_, ty)| *ty == t) { // keep <= 1 live fact per type: retract the old one first
                    let (h, _) = *live.iter().find(|(_, ty)| *ty == t).unwrap();
                    ops.push(Sx::l(vec![Sx::n(2), Sx::i(h)])); live.retain(|(x, _)| *x != h);
                }
                ops.push(Sx::l(vec![Sx::n(0), Sx::i(t), gen_data(rng)])); live.push((next, t)); next += 1;
            } else if r < 6 && next > 1 { ops.push(Sx::l(vec![Sx::n(1), Sx::i(rng.range(1, next as u64 - 1) as i64), gen_data(rng)])); }
            else if r < 7 && next > 1 { let h = rng.range(1, next as u64 - 1) as i64; ops.push(Sx::l(vec![Sx::n(2), Sx::i(h)])); live.retain(|(x, _)| *x != h); }
            else if r < 9 {
                ops.push(Sx::l(vec![Sx::n(3)]));
                // effectful fire_all may retract: the generator cannot know; conservatively forget liveness knowledge of types
                if !sorted { /* handled by retract-before-insert using the harness' view below */ }
            }
            else { ops.push(Sx::l(vec![Sx::n(4)])); }
        }
        if !ops.iter().any(|o| o.at(0).as_u() == 3) { ops.push(Sx::l(vec![Sx::n(3)])); }
        v.push(Sx::l(vec![Sx::b(sorted), Sx::l(rules), Sx::l(ops)]));
    }
    // working-memory indexes, systematically: n facts (3..5, thorough 6) spread over 1 or 2 types, retracted in EVERY order,
    // with an update or a fire_all squeezed in at a random place; every lookup (by handle, by type, full listing) is observed after every op
    let maxn = if tier == Tier::Thorough { 6 } else { 5 };
    for n in 3..=maxn {
        let mut perm: Vec<i64> = (1..=n as i64).collect();
        let mut perms: Vec<Vec<i64>> = vec![];
        fn rec(k: usize, p: &mut Vec<i64>, out: &mut Vec<Vec<i64>>) { if k == p.len() { out.push(p.clone()); return; } for i in k..p.len() { p.swap(k, i); rec(k + 1, p, out); p.swap(k, i); } }
        rec(0, &mut perm, &mut perms);
        for (pi, pm) in perms.iter().enumerate() {
            let two_types = pi % 3 == 2;
            let rules = vec![Sx::l(vec![Sx::i(0), Sx::i(0), Sx::i(0), Sx::b(true), gen_cond(rng, 1), Sx::l(vec![Sx::n(0)])])];
            let mut ops: Vec<Sx> = (0..n).map(|i| Sx::l(vec![Sx::n(0), Sx::i(if two_types { (i % 2) as i64 } else { 0 }), gen_data(rng)])).collect();
            let extra_at = rng.below(n as u64 + 1) as usize;
            for (k, h) in pm.iter().enumerate() {
                if k == extra_at { ops.push(if rng.chance(1, 2) { Sx::l(vec![Sx::n(3)]) } else { Sx::l(vec![Sx::n(1), Sx::i(*rng.pick(pm)), gen_data(rng)]) }); }
                ops.push(Sx::l(vec![Sx::n(2), Sx::i(*h)]));
            }
            ops.push(Sx::l(vec![Sx::n(3)]));
            v.push(Sx::l(vec![Sx::b(true), Sx::l(rules), Sx::l(ops)]));
        }
    }
    v
}

fn mk_node(c: &Sx, t: i128) -> ReteUlNode {
    let ops = ["==", "!=", "<", "<=", ">", ">="];
    match c.at(0).as_u() {
        0 => ReteUlNode::UlAlpha(AlphaNode { field: format!("{}.f{}", tname(t), c.at(1).as_i()), operator: ops[c.at(2).as_us()].into(), value: c.at(3).as_i().to_string() }),
        1 => ReteUlNode::UlAnd(Box::new(mk_node(c.at(1), t)), Box::new(mk_node(c.at(2), t))),
        2 => ReteUlNode::UlOr(Box::new(mk_node(c.at(1), t)), Box::new(mk_node(c.at(2), t))),
        _ => ReteUlNode::UlNot(Box::new(mk_node(c.at(1), t))),
    }
}
fn mk_data(d: &Sx) -> TypedFacts { let mut t = TypedFacts::new(); for kv in d.as_l() { t.set(format!("f{}", kv.at(0).as_i()), kv.at(1).as_i() as i64); } t }
fn enc_data(t: &TypedFacts) -> Sx {
    let mut kv: Vec<(i64, i64)> = t.get_all().iter().map(|(k, v)| (k[1..].parse::<i64>().unwrap(), match v { FactValue::Integer(i) => *i, _ => -99999 })).collect();
    kv.sort();
    Sx::l(kv.iter().map(|(k, v)| Sx::l(vec![Sx::i(*k), Sx::i(*v)])).collect())
}

/// the same rule set as GRL text (inert actions only): conditions over Tt.fi with the six comparison operators, &&, ||, !( )
fn grl_cond(c: &Sx, t: i128) -> String {
    let ops = ["==", "!=", "<", "<=", ">", ">="];
    match c.at(0).as_u() {
        0 => format!("{}.f{} {} {}", tname(t), c.at(1).as_i(), ops[c.at(2).as_us()], c.at(3).as_i()),
        1 => format!("({} && {})", grl_cond(c.at(1), t), grl_cond(c.at(2), t)),
        2 => format!("({} || {})", grl_cond(c.at(1), t), grl_cond(c.at(2), t)),
        _ => format!("!({})", grl_cond(c.at(1), t)),
    }
}
fn grl_of(rules: &Sx) -> String {
    rules.as_l().iter().map(|r| format!("rule \"r{}\" salience {} {}{{ when {} then Log(\"fired\"); }}\n",
        r.at(0).as_i(), r.at(2).as_i(), if r.at(3).as_b() { "no-loop " } else { "" }, grl_cond(r.at(4), r.at(1).as_i()))).collect()
}

pub fn run(case: &Sx) -> (Sx, String) { crate::run_in_child("C06", case, 60) }

pub fn run_direct(case: &Sx) -> (Sx, String) {
    let sorted = case.at(0).as_b();
    let log: Arc<Mutex<Vec<Sx>>> = Arc::new(Mutex::new(vec![]));
    let mut e = IncrementalEngine::new();
    for r in case.at(1).as_l() {
        let name = r.at(0).as_i(); let ty = r.at(1).as_i(); let action = r.at(5).clone(); let log2 = log.clone();
        let tn = tname(ty);
        e.add_rule(TypedReteUlRule { name: format!("r{}", name), node: mk_node(r.at(4), ty), priority: r.at(2).as_i() as i32, no_loop: r.at(3).as_b(),
            action: Arc::new(move |facts, results| {
                // recorder: rule, matched handle, the matched fact's contents as the action sees them
                let h = facts.get_fact_handle(&tn).map(|h| h.id()).unwrap_or(0);
                let prefix = format!("{}.{}.", tn, h);
                let mut kv: Vec<(i64, i64)> = facts.get_all().iter().filter(|(k, _)| k.starts_with(&prefix))
                    .map(|(k, v)| (k[prefix.len() + 1..].parse::<i64>().unwrap(), match v { FactValue::Integer(i) => *i, _ => -99999 })).collect();
                kv.sort();
                log2.lock().unwrap().push(Sx::l(vec![Sx::A(name), Sx::n(h), Sx::l(kv.iter().map(|(k, v)| Sx::l(vec![Sx::i(*k), Sx::i(*v)])).collect())]));
                match action.at(0).as_u() {
                    1 => { facts.set(format!("{}.f{}", tn, action.at(1).as_i()), action.at(2).as_i() as i64); }
                    2 => { if let Some(hd) = facts.get_fact_handle(&tn) { results.add(ActionResult::Retract(hd)); } }
                    _ => {}
                }
            }) }, vec![tname(ty)]);
    }
    // GRL-loader glue (src/rete/grl_loader.rs): for inert rule sets the same rules are also written as GRL text, loaded through
    // GrlReteLoader::load_from_string into a second engine that receives the same operations; every fire_all must fire the same rules
    let mut e2 = if sorted && case.at(1).as_l().iter().all(|r| r.at(5).at(0).as_u() == 0) {
        let mut e2 = IncrementalEngine::new();
        match rust_rule_engine::rete::grl_loader::GrlReteLoader::load_from_string(&grl_of(case.at(1)), &mut e2) {
            Ok(n) => { assert_eq!(n, case.at(1).as_l().len(), "the GRL loader loaded {} of {} rules", n, case.at(1).as_l().len()); Some(e2) }
            Err(err) => panic!("the GRL loader rejected the rule set: {}", err),
        }
    } else { None };
    let mut obs = vec![]; let mut issued = 0u64; let (mut nfir, mut nfire_ops) = (0usize, 0);
    for o in case.at(2).as_l() {
        if let Some(e2) = e2.as_mut() {
            match o.at(0).as_u() {
                0 => { let _ = e2.insert(tname(o.at(1).as_i()), mk_data(o.at(2))); }
                1 => { let _ = e2.update(FactHandle::new(o.at(1).as_u()), mk_data(o.at(2))); }
                2 => { let _ = e2.retract(FactHandle::new(o.at(1).as_u())); }
                3 => {}
                _ => { e2.reset(); }
            }
        }
        let res = match o.at(0).as_u() {
            0 => { issued += 1; Sx::l(vec![Sx::n(e.insert(tname(o.at(1).as_i()), mk_data(o.at(2))).id())]) }
            1 => Sx::l(vec![Sx::b(e.update(FactHandle::new(o.at(1).as_u()), mk_data(o.at(2))).is_ok())]),
            2 => Sx::l(vec![Sx::b(e.retract(FactHandle::new(o.at(1).as_u())).is_ok())]),
            3 => { nfire_ops += 1; log.lock().unwrap().clear(); let fired = e.fire_all(); let l = log.lock().unwrap().clone(); nfir += l.len();
                   assert_eq!(fired.len(), l.len(), "fire_all returned {} names but {} actions ran", fired.len(), l.len());
                   if let Some(e2) = e2.as_mut() {
                       let mut a: Vec<String> = fired.clone(); a.sort(); let mut b: Vec<String> = e2.fire_all(); b.sort();
                       assert_eq!(a, b, "rules loaded from GRL text fire differently from the same rules built through the API");
                   }
                   if sorted { let mut names: Vec<i128> = l.iter().map(|f| f.at(0).as_i()).collect(); names.sort(); Sx::l(names.iter().map(|n| Sx::A(*n)).collect()) } else { Sx::l(l) } }
            _ => { e.reset(); Sx::l(vec![]) }
        };
        let wm = e.working_memory();
        let gets: Vec<Sx> = (1..=issued).map(|h| match wm.get(&FactHandle::new(h)) {
            Some(f) => Sx::l(vec![Sx::n(1), Sx::i(f.fact_type[1..].parse::<i64>().unwrap()), enc_data(&f.data)]), None => Sx::l(vec![Sx::n(0)]) }).collect();
        let tys: Vec<Sx> = (0..3).map(|t| { let mut hs: Vec<u64> = wm.get_by_type(&tname(t)).iter().map(|f| f.handle.id()).collect(); hs.sort(); Sx::ns(hs) }).collect();
        let mut all: Vec<u64> = wm.get_all_facts().iter().map(|f| f.handle.id()).collect(); all.sort();
        obs.push(Sx::l(vec![res, Sx::l(vec![Sx::l(gets), Sx::l(tys), Sx::ns(all)])]));
    }
    (Sx::l(obs), if nfir == 0 { "trivial".into() } else { format!("{} fired{} fireops{}", if sorted { "inert" } else { "effects" }, nfir.min(9), nfire_ops.min(3)) })
}
