//! C15 — KnowledgeBase: sequential op sequences (tag 0) and concurrent histories (tag 1).
//! op = (0 n sal tag) add | (1 n) remove | (2 n b) enable | (3) clear | (4 n) get | (5) version | (6) listing
use crate::rng::Rng;
use crate::sx::Sx;
use crate::Tier;
use rust_rule_engine::engine::knowledge_base::KnowledgeBase;
use rust_rule_engine::engine::rule::{Condition, ConditionGroup, Rule};
use rust_rule_engine::types::{Operator, Value};
use std::sync::atomic::{AtomicI64, Ordering};
use std::sync::Arc;

fn mk_rule(n: i64, sal: i64, tag: i64) -> Rule {
    Rule::new(format!("R{}", n), ConditionGroup::Single(Condition::new("X.a".into(), Operator::Equal, Value::Integer(1))), vec![])
        .with_salience(sal as i32).with_description(tag.to_string())
}
fn enc_rule(r: &Rule) -> Sx {
    Sx::l(vec![Sx::i(r.name[1..].parse::<i64>().unwrap()), Sx::i(r.salience as i64), Sx::b(r.enabled),
               Sx::i(r.description.as_ref().map(|d| d.parse::<i64>().unwrap()).unwrap_or(-1))])
}

/// apply one op, return the encoded result (same encoding as KB.enc_res)
fn apply(kb: &KnowledgeBase, o: &Sx) -> Sx {
    match o.at(0).as_u() {
        0 => Sx::l(vec![Sx::n(0), Sx::b(kb.add_rule(mk_rule(o.at(1).as_i() as i64, o.at(2).as_i() as i64, o.at(3).as_i() as i64)).is_ok())]),
        1 => Sx::l(vec![Sx::n(0), Sx::b(kb.remove_rule(&format!("R{}", o.at(1).as_i())).unwrap())]),
        2 => Sx::l(vec![Sx::n(0), Sx::b(kb.set_rule_enabled(&format!("R{}", o.at(1).as_i()), o.at(2).as_b()).unwrap())]),
        3 => { kb.clear(); Sx::l(vec![Sx::n(1)]) }
        4 => Sx::l(vec![Sx::n(2), Sx::opt(kb.get_rule(&format!("R{}", o.at(1).as_i())).map(|r| enc_rule(&r)))]),
        5 => Sx::l(vec![Sx::n(3), Sx::n(kb.version())]),
        _ => Sx::l(vec![Sx::n(4), Sx::l(kb.get_rules().iter().map(enc_rule).collect())]),
    }
}

fn mutators(tagbase: i64) -> Vec<Sx> {
    let mut v = vec![];
    for n in 0..4 { for (si, s) in [-1i64, 0, 5].iter().enumerate() { v.push(Sx::l(vec![Sx::n(0), Sx::i(n), Sx::i(*s), Sx::i(tagbase + n * 3 + si as i64)])); } }
    for n in 0..4 { v.push(Sx::l(vec![Sx::n(1), Sx::i(n)])); }
    for n in 0..4 { v.push(Sx::l(vec![Sx::n(2), Sx::i(n), Sx::b(false)])); v.push(Sx::l(vec![Sx::n(2), Sx::i(n), Sx::b(true)])); }
    v.push(Sx::l(vec![Sx::n(3)]));
    v
}

fn rand_op(rng: &mut Rng, tag: i64, queries: bool) -> Sx {
    let r = rng.below(if queries { 14 } else { 10 });
    let n = rng.below(4) as i64;
    match r {
        0..=3 => Sx::l(vec![Sx::n(0), Sx::i(n), Sx::i(*rng.pick(&[-1i64, 0, 5, i32::MAX as i64, i32::MIN as i64])), Sx::i(tag)]),
        4..=5 => Sx::l(vec![Sx::n(1), Sx::i(n)]),
        6..=8 => Sx::l(vec![Sx::n(2), Sx::i(n), Sx::b(rng.chance(1, 2))]),
        9 => Sx::l(vec![Sx::n(3)]),
        10..=11 => Sx::l(vec![Sx::n(4), Sx::i(n)]),
        12 => Sx::l(vec![Sx::n(5)]),
        _ => Sx::l(vec![Sx::n(6)]),
    }
}

pub fn gen(tier: Tier, rng: &mut Rng) -> Vec<Sx> {
    let mut v = vec![];
    // exhaustive sequences of mutators (2 names x 3 saliences slice of the alphabet for depth; the
    // full 4x3 alphabet for short ones); the observation after every op is the complete KB state
    let full = mutators(100);
    let small: Vec<Sx> = full.iter().filter(|o| o.at(0).as_u() == 3 || o.at(1).as_i() < 2).cloned().collect();
    for a in &full { v.push(Sx::l(vec![Sx::n(0), Sx::l(vec![a.clone()])])); }
    for a in &full { for b in &full { v.push(Sx::l(vec![Sx::n(0), Sx::l(vec![a.clone(), b.clone()])])); } }
    for a in &small { for b in &small { for c in &small { v.push(Sx::l(vec![Sx::n(0), Sx::l(vec![a.clone(), b.clone(), c.clone()])])); } } }
    for a in &small { for b in &small { for c in &small { for d in &small {
        v.push(Sx::l(vec![Sx::n(0), Sx::l(vec![a.clone(), b.clone(), c.clone(), d.clone()])])); } } } }
    if tier == Tier::Thorough {
        for a in &small { for b in &small { for c in &small { for d in &small { for e in &small {
            v.push(Sx::l(vec![Sx::n(0), Sx::l(vec![a.clone(), b.clone(), c.clone(), d.clone(), e.clone()])])); } } } } }
    }
    let n = if tier == Tier::Thorough { 60000 } else { 10000 };
    for _ in 0..n {
        let len = rng.range(3, 8) as usize;
        v.push(Sx::l(vec![Sx::n(0), Sx::l((0..len).map(|i| rand_op(rng, i as i64, false)).collect())]));
    }
    // concurrent histories: 3 threads x 4 ops on one shared KnowledgeBase, after a short prefix
    let nc = if tier == Tier::Thorough { 8000 } else { 1500 };
    for _ in 0..nc {
        let pre: Vec<Sx> = (0..rng.below(3)).map(|i| rand_op(rng, 50 + i as i64, false)).collect();
        let progs: Vec<Sx> = (0..3).map(|t| Sx::l((0..4).map(|i| rand_op(rng, (t * 10 + i) as i64, true)).collect())).collect();
        v.push(Sx::l(vec![Sx::n(1), Sx::l(pre), Sx::l(progs)]));
    }
    v
}

pub fn run(case: &Sx) -> (Sx, String) {
    if case.at(0).as_u() == 0 {
        let kb = KnowledgeBase::new("kb");
        let mut obs = vec![]; let mut maxr = 0;
        for o in case.at(1).as_l() {
            let res = apply(&kb, o);
            let rules = kb.get_rules(); maxr = maxr.max(rules.len());
            obs.push(Sx::l(vec![res, Sx::l(rules.iter().map(enc_rule).collect()),
                Sx::l((0..4).map(|n| Sx::opt(kb.get_rule(&format!("R{}", n)).map(|r| enc_rule(&r)))).collect()),
                Sx::n(kb.version())]));
        }
        (Sx::l(obs), if maxr >= 2 { "seq multi".into() } else if maxr == 1 { "seq single".into() } else { "trivial".into() })
    } else {
        let kb = Arc::new(KnowledgeBase::new("kb"));
        for o in case.at(1).as_l() { apply(&kb, o); }
        rust_rule_engine::verif_hooks::set_yield(true);
        let clock = Arc::new(AtomicI64::new(1));
        let start = Arc::new(std::sync::Barrier::new(3));
        let mut hs = vec![];
        for (t, prog) in case.at(2).as_l().iter().enumerate() {
            let kb = kb.clone(); let clock = clock.clone(); let prog = prog.clone(); let start = start.clone();
            hs.push(std::thread::spawn(move || {
                let mut out = vec![];
                start.wait();
                for (i, o) in prog.as_l().iter().enumerate() {
                    let inv = clock.fetch_add(1, Ordering::SeqCst);
                    let res = apply(&kb, o);
                    let resp = clock.fetch_add(1, Ordering::SeqCst);
                    out.push(Sx::l(vec![Sx::us(t), Sx::us(i), res, Sx::A(inv as i128), Sx::A(resp as i128)]));
                    if i % 2 == 0 { std::thread::yield_now(); }
                }
                out
            }));
        }
        let mut evs = vec![];
        for h in hs { evs.extend(h.join().unwrap()); }
        rust_rule_engine::verif_hooks::set_yield(false);
        // overlap statistics for the label: number of pairs of ops from different threads that overlap in time
        let mut overlaps = 0;
        for a in &evs { for b in &evs { if a.at(0) != b.at(0) && a.at(3).as_i() < b.at(4).as_i() && b.at(3).as_i() < a.at(4).as_i() { overlaps += 1; } } }
        (Sx::l(evs), if overlaps > 0 { "concurrent overlapping".into() } else { "concurrent serial".into() })
    }
}
