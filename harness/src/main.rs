//! rre-harness: runs the real rust-rule-engine on generated cases and prints canonical
//! observations, one s-expression per line, for comparison with the Coq model.
//!
//!   rre-harness gen <prop> <tier> <seed> <outdir>   -> <outdir>/cases.txt, impl.out, meta.out
//!   rre-harness run <prop> <cases-file> <outdir>    -> <outdir>/impl.out, meta.out (cases given)
#![allow(unexpected_cfgs)]
#![allow(dead_code)]
mod rng;
mod sx;
mod c01;
mod c02;
mod c04;
mod c05;
mod c06;
mod c07;
mod c08;
mod c09;
mod c10;
mod c12;
mod c13;
mod c14;
mod c15;
mod c16;
mod c17;
mod c18;
mod c19;
mod c20;

use rng::Rng;
use std::io::Write;
use sx::Sx;

#[derive(Clone, Copy, PartialEq)]
pub enum Tier { Quick, Thorough }

pub struct Prop {
    pub gen: fn(Tier, &mut Rng) -> Vec<Sx>,
    /// runs the implementation; returns the observation and a short label describing the case
    pub run: fn(&Sx) -> (Sx, String),
}

/// properties whose cases may panic-abort, overflow the stack or hang: the batch runs in a child
/// process that the parent restarts after the offending case
fn isolated(id: &str) -> bool { matches!(id, "C05" | "C15" | "C19") }
/// seconds without progress after which the child is declared hung (C15 / C19: a case takes milliseconds; a deadlocked or
/// never-returning call is part of what those properties exclude)
fn stall_secs(id: &str) -> u64 { if id == "C05" { 120 } else { 25 } }

/// parent side of the isolated mode: (re)start a child on cases[start..]; a dead child marks the case
/// it was working on as `!crash`, a child that makes no progress for `stall_s` seconds as `!hang`
fn run_isolated(prop: &str, cases_file: &str, ncases: usize, outdir: &str, stall_s: u64) {
    use std::process::{Command, Stdio};
    let impl_path = format!("{}/impl.out", outdir); let meta_path = format!("{}/meta.out", outdir);
    std::fs::write(&impl_path, "").unwrap(); std::fs::write(&meta_path, "").unwrap();
    let count = |p: &str| std::fs::read_to_string(p).map(|t| t.lines().count()).unwrap_or(0);
    let append = |p: &str, line: &str| { use std::io::Write; let mut f = std::fs::OpenOptions::new().append(true).open(p).unwrap(); writeln!(f, "{}", line).unwrap(); };
    let exe = std::env::current_exe().unwrap();
    let mut hangs = 0;
    loop {
        let start = count(&impl_path);
        if start >= ncases { break; }
        // three hung cases are enough to report; the rest of the batch is not run (every remaining case could cost a full stall period)
        if hangs >= 3 { for _ in start..ncases { append(&impl_path, "!hang (not run: three earlier cases of this batch hung)"); append(&meta_path, "abnormal"); } break; }
        let mut child = Command::new(&exe).args(["runrange", prop, cases_file, &start.to_string(), outdir]).stdout(Stdio::null()).stderr(Stdio::null()).spawn().unwrap();
        let mut last = start; let mut last_t = std::time::Instant::now();
        let status = loop {
            if let Some(st) = child.try_wait().unwrap() { break Some(st); }
            let n = count(&impl_path);
            if n != last { last = n; last_t = std::time::Instant::now(); }
            if last_t.elapsed().as_secs() > stall_s { let _ = child.kill(); let _ = child.wait(); break None; }
            std::thread::sleep(std::time::Duration::from_millis(20));
        };
        let done = count(&impl_path);
        // keep meta.out in step with impl.out
        while count(&meta_path) > done { let t = std::fs::read_to_string(&meta_path).unwrap(); let keep: Vec<&str> = t.lines().take(done).collect(); std::fs::write(&meta_path, keep.join("\n") + "\n").unwrap(); }
        while count(&meta_path) < done { append(&meta_path, "abnormal"); }
        match status {
            Some(st) if st.success() && done >= ncases => break,
            Some(st) if st.success() => { /* child ended early without error: should not happen */ append(&impl_path, "!crash child ended early"); append(&meta_path, "abnormal"); }
            Some(st) => { append(&impl_path, &format!("!crash child died: {:?}", st)); append(&meta_path, "abnormal"); }
            None => { hangs += 1; append(&impl_path, &format!("!hang no progress for {} s", stall_s)); append(&meta_path, "abnormal"); }
        }
    }
}

fn prop(id: &str) -> Prop {
    match id {
        "C01" => Prop { gen: c01::gen, run: c01::run },
        "C04" => Prop { gen: c04::gen, run: c04::run },
        "C08" => Prop { gen: c08::gen, run: c08::run },
        "C17" => Prop { gen: c17::gen, run: c17::run },
        "C09" => Prop { gen: c09::gen, run: c09::run },
        "C11" => Prop { gen: c09::gen_c11, run: c09::run },
        "C10" => Prop { gen: c10::gen, run: c10::run },
        "C18" => Prop { gen: c18::gen, run: c18::run },
        "C12" => Prop { gen: c12::gen, run: c12::run },
        "C14" => Prop { gen: c14::gen, run: c14::run },
        "C15" => Prop { gen: c15::gen, run: c15::run },
        "C16" => Prop { gen: c16::gen, run: c16::run },
        "C20" => Prop { gen: c20::gen, run: c20::run },
        "C07" => Prop { gen: c07::gen, run: c07::run },
        "C02" => Prop { gen: c02::gen, run: c02::run },
        "C03" => Prop { gen: c02::gen_c03, run: c02::run },
        "C19" => Prop { gen: c19::gen, run: c19::run },
        "C06" => Prop { gen: c06::gen, run: c06::run },
        "C05" => Prop { gen: c05::gen, run: c05::run },
        "C13" => Prop { gen: c13::gen, run: c13::run },
        _ => { eprintln!("unknown property {}", id); std::process::exit(2) }
    }
}

/// Run one case of `prop` in a child process with a watchdog (for code that may hang or abort).
/// The child prints the observation and the label on two lines; a timeout yields `!hang`.
pub fn run_in_child(prop: &str, case: &Sx, timeout_s: u64) -> (Sx, String) {
    use std::process::{Command, Stdio};
    let exe = std::env::current_exe().unwrap();
    let mut child = Command::new(exe).args(["one", prop, &case.show()]).stdout(Stdio::piped()).stderr(Stdio::null()).spawn().unwrap();
    // drain the pipe concurrently: a large observation would otherwise fill the pipe and block the child
    let mut so = child.stdout.take().unwrap();
    let reader = std::thread::spawn(move || { use std::io::Read; let mut out = String::new(); let _ = so.read_to_string(&mut out); out });
    let start = std::time::Instant::now();
    loop {
        match child.try_wait().unwrap() {
            Some(status) => {
                let out = reader.join().unwrap();
                let mut lines = out.lines();
                if !status.success() {
                    panic!("child exited with {:?}: {}", status.code(), out.lines().last().unwrap_or(""));
                }
                let o = lines.next().unwrap_or("()"); let l = lines.next().unwrap_or("child");
                return (Sx::parse(o), l.to_string());
            }
            None => {
                if start.elapsed().as_secs() > timeout_s { let _ = child.kill(); let _ = child.wait(); panic!("hang: no return within {} s", timeout_s); }
                std::thread::sleep(std::time::Duration::from_millis(1));
            }
        }
    }
}

fn run_one_direct(prop: &str, case: &Sx) -> (Sx, String) {
    match prop {
        "C06" => c06::run_direct(case),
        "C07" => c07::run_loop_direct(case),
        _ => panic!("no direct runner for {}", prop),
    }
}

fn run_all(p: &Prop, cases: &[Sx], outdir: &str) {
    let mut out = std::io::BufWriter::new(std::fs::File::create(format!("{}/impl.out", outdir)).unwrap());
    let mut meta = std::io::BufWriter::new(std::fs::File::create(format!("{}/meta.out", outdir)).unwrap());
    std::panic::set_hook(Box::new(|_| {}));
    for c in cases {
        let f = p.run;
        let r = std::panic::catch_unwind(std::panic::AssertUnwindSafe(|| f(c)));
        match r {
            Ok((o, label)) => { writeln!(out, "{}", o.show()).unwrap(); writeln!(meta, "{}", label).unwrap(); }
            Err(e) => {
                let msg = if let Some(s) = e.downcast_ref::<String>() { s.clone() }
                          else if let Some(s) = e.downcast_ref::<&str>() { s.to_string() } else { "?".into() };
                writeln!(out, "!panic {}", msg.replace('\n', " ")).unwrap();
                writeln!(meta, "panic").unwrap();
            }
        }
    }
}

fn main() {
    let a: Vec<String> = std::env::args().collect();
    if a.len() < 2 { eprintln!("usage: rre-harness gen|run ..."); std::process::exit(2); }
    match a[1].as_str() {
        "gen" => {
            let p = prop(&a[2]);
            let tier = if a[3] == "thorough" { Tier::Thorough } else { Tier::Quick };
            let seed: u64 = a[4].parse().unwrap();
            let outdir = &a[5];
            std::fs::create_dir_all(outdir).unwrap();
            let mut rng = Rng::new(seed);
            let mut cases: Vec<Sx> = vec![];
            // corpus first
            let corpus = format!("{}/../corpus/{}.cases", env!("CARGO_MANIFEST_DIR"), a[2]);
            if let Ok(txt) = std::fs::read_to_string(&corpus) {
                for line in txt.lines() { let t = line.trim(); if !t.is_empty() && !t.starts_with('#') { cases.push(Sx::parse(t)); } }
            }
            cases.extend((p.gen)(tier, &mut rng));
            let mut cf = std::io::BufWriter::new(std::fs::File::create(format!("{}/cases.txt", outdir)).unwrap());
            for c in &cases { writeln!(cf, "{}", c.show()).unwrap(); }
            drop(cf);
            if isolated(&a[2]) { run_isolated(&a[2], &format!("{}/cases.txt", outdir), cases.len(), outdir, stall_secs(&a[2])); }
            else { run_all(&p, &cases, outdir); }
        }
        "text" => {
            // dev helper: print the GRL text of a C01 / C04 case given on the command line or (with @file:line) in a file
            let c = Sx::parse(&a[3]);
            match a[2].as_str() { "C04" => print!("{}", c04::file_text(c.at(1), c.at(2))), "C01" => print!("{}", c01::grl_text(c.at(0))), _ => {} }
        }
        "one" => {
            let c = Sx::parse(&a[3]);
            let (o, l) = run_one_direct(&a[2], &c);
            println!("{}", o.show()); println!("{}", l);
        }
        "run" => {
            let p = prop(&a[2]);
            let txt = std::fs::read_to_string(&a[3]).unwrap();
            let cases: Vec<Sx> = txt.lines().filter(|l| !l.trim().is_empty()).map(|l| Sx::parse(l)).collect();
            std::fs::create_dir_all(&a[4]).unwrap();
            if isolated(&a[2]) { run_isolated(&a[2], &a[3], cases.len(), &a[4], stall_secs(&a[2])); } else { run_all(&p, &cases, &a[4]); }
        }
        "runrange" => {
            // child of the isolated mode: append one line per case, flushed, starting at index a[4]
            let p = prop(&a[2]);
            let txt = std::fs::read_to_string(&a[3]).unwrap();
            let start: usize = a[4].parse().unwrap();
            let outdir = &a[5];
            std::panic::set_hook(Box::new(|_| {}));
            let mut out = std::fs::OpenOptions::new().append(true).open(format!("{}/impl.out", outdir)).unwrap();
            let mut meta = std::fs::OpenOptions::new().append(true).open(format!("{}/meta.out", outdir)).unwrap();
            for l in txt.lines().filter(|l| !l.trim().is_empty()).skip(start) {
                let c = Sx::parse(l);
                let f = p.run;
                let r = std::panic::catch_unwind(std::panic::AssertUnwindSafe(|| f(&c)));
                // meta first, then the observation: the parent counts observation lines
                match r {
                    Ok((o, label)) => { writeln!(meta, "{}", label).unwrap(); meta.flush().unwrap(); writeln!(out, "{}", o.show()).unwrap(); }
                    Err(_) => { writeln!(meta, "panic").unwrap(); meta.flush().unwrap(); writeln!(out, "!panic (uncaught in harness)").unwrap(); }
                }
                out.flush().unwrap();
            }
        }
        _ => { eprintln!("unknown command"); std::process::exit(2); }
    }
}
