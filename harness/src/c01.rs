//! C01 — forward chaining on the typed core of GRL: generated rule sets are printed as GRL text,
//! parsed by the real GRLParser, run by RustRuleEngine::execute_with_callback on a generated fact
//! store; observed: the parsed Rule structures, every firing with the facts after it, the result.
use crate::rng::Rng;
use crate::sx::Sx;
use crate::Tier;
use rust_rule_engine::engine::facts::Facts;
use rust_rule_engine::engine::knowledge_base::KnowledgeBase;
use rust_rule_engine::engine::rule::{ConditionExpression, ConditionGroup, Rule};
use rust_rule_engine::engine::RustRuleEngine;
use rust_rule_engine::parser::grl::GRLParser;
use rust_rule_engine::types::{ActionType, LogicalOperator, Operator, Value};
use std::collections::HashMap;

// ---------- schema ----------
#[derive(Clone, Copy, PartialEq)]
pub enum K { Int, Float, Str, Bool, Arr, Absent }
const FIELDS: &[(&[&str], K)] = &[
    (&["n1"], K::Int), (&["n2"], K::Int), (&["User", "age"], K::Int), (&["Order", "qty"], K::Int), (&["Order", "cust", "level"], K::Int),
    (&["f1"], K::Float), (&["Order", "price"], K::Float), (&["User", "score"], K::Float),
    (&["s1"], K::Str), (&["s2"], K::Str), (&["User", "name"], K::Str), (&["Order", "status"], K::Str),
    (&["b1"], K::Bool), (&["User", "vip"], K::Bool),
    (&["tags"], K::Arr), (&["Order", "items"], K::Arr),
    (&["zz"], K::Absent), (&["User", "none"], K::Absent), (&["Ghost", "x"], K::Absent),
];
const STRS: &[&str] = &["", "a", "ab", "abc", "gold", "active", "b", "x y", "Gold", "bc"];
const ODD_STRS: &[&str] = &["null", "12", "n1", "3.5", "s2", "true", "User.name", "x>=y", "a==b", "<", "p != q"];
const FLOATS: &[&str] = &["0.0", "0.5", "1.5", "2.0", "10.25", "0.1", "3.0", "100.0", "2.5"];

thread_local! { static PRESENT: std::cell::RefCell<Vec<(&'static [&'static str], K)>> = std::cell::RefCell::new(vec![]); }
fn present_of(k: K) -> Vec<&'static [&'static str]> { PRESENT.with(|p| p.borrow().iter().filter(|f| f.1 == k).map(|f| f.0).collect()) }

pub fn path_sx(p: &[&str]) -> Sx { Sx::l(p.iter().map(|s| Sx::s(s)).collect()) }
fn fields_of(k: K) -> Vec<&'static [&'static str]> { FIELDS.iter().filter(|f| f.1 == k).map(|f| f.0).collect() }
pub fn any_field(rng: &mut Rng) -> &'static [&'static str] { FIELDS[rng.below(FIELDS.len() as u64) as usize].0 }
pub fn field_of(rng: &mut Rng, k: K) -> &'static [&'static str] {
    if rng.chance(1, 90) { return any_field(rng); }
    if rng.chance(1, 60) { return *rng.pick(&fields_of(K::Absent)); }
    let pr = present_of(k);
    if !pr.is_empty() && rng.chance(29, 30) { return *rng.pick(&pr); }
    *rng.pick(&fields_of(k))
}

fn num_field(rng: &mut Rng) -> &'static [&'static str] { let k = if rng.chance(2, 3) { K::Int } else { K::Float }; field_of(rng, k) }

// ---------- generators (s-expression syntax trees; see Model/ForwardSpec.v) ----------
pub fn lit_int(z: i64) -> Sx { Sx::l(vec![Sx::n(0), Sx::i(z)]) }
pub fn lit_num(t: &str) -> Sx { Sx::l(vec![Sx::n(1), Sx::s(t)]) }
pub fn lit_str(t: &str) -> Sx { Sx::l(vec![Sx::n(2), Sx::s(t)]) }
pub fn lit_bool(b: bool) -> Sx { Sx::l(vec![Sx::n(3), Sx::b(b)]) }
pub fn lit_null() -> Sx { Sx::l(vec![Sx::n(4)]) }
pub fn lit_arr(v: Vec<Sx>) -> Sx { Sx::l(vec![Sx::n(5), Sx::l(v)]) }
pub fn a_lit(l: Sx) -> Sx { Sx::l(vec![Sx::n(0), l]) }
pub fn a_field(p: &[&str]) -> Sx { Sx::l(vec![Sx::n(1), path_sx(p)]) }
pub fn a_bin(op: char, a: Sx, b: Sx) -> Sx { Sx::l(vec![Sx::n(2), Sx::n(op as u64), a, b]) }
fn a_par(a: Sx) -> Sx { Sx::l(vec![Sx::n(3), a]) }

pub fn small_int(rng: &mut Rng) -> i64 { *rng.pick(&[0i64, 1, 2, 3, 4, 5, 7, 10, 12, 100]) }
pub fn str_lit(rng: &mut Rng) -> Sx { if rng.chance(1, 12) { lit_str(*rng.pick(ODD_STRS)) } else { lit_str(*rng.pick(STRS)) } }

/// numeric atom; `lhs`: only what the condition regex admits on a left-hand side; `nk`: Int = integer
/// operands only, Float = float operands only, anything else = mixed
fn num_atom(rng: &mut Rng, lhs: bool, depth: u32, nk: K) -> Sx {
    let fk = match nk { K::Int => K::Int, K::Float => K::Float, _ => if rng.chance(2, 3) { K::Int } else { K::Float } };
    let int_lit = nk != K::Float; let float_lit = nk != K::Int;
    match rng.below(if lhs { 8 } else { 11 }) {
        0..=3 => a_field(field_of(rng, fk)),
        4..=6 => if int_lit { a_lit(lit_int(small_int(rng))) } else { a_lit(lit_num(*rng.pick(FLOATS))) },
        7 => if float_lit { a_lit(lit_num(*rng.pick(FLOATS))) } else { a_lit(lit_int(small_int(rng))) },
        8 => if int_lit { a_lit(lit_int(-small_int(rng))) } else { a_lit(lit_num(&format!("-{}", rng.pick(FLOATS)))) },
        9 => if float_lit { a_lit(lit_num(&format!("-{}", rng.pick(FLOATS)))) } else { a_lit(lit_int(-small_int(rng))) },
        _ => if depth < 2 { let b = if rng.chance(1, 2) { num_atom(rng, false, depth + 1, nk) } else { num_prod(rng, false, depth + 1, false, nk) };
                            a_par(a_bin(*rng.pick(&['+', '-']), num_sum(rng, false, depth + 1, 1, nk), b)) }
             else { a_field(field_of(rng, fk)) },
    }
}
fn num_prod(rng: &mut Rng, lhs: bool, depth: u32, first_field: bool, nk: K) -> Sx {
    let mut e = if first_field { let fk = match nk { K::Int => K::Int, K::Float => K::Float, _ => if rng.chance(2, 3) { K::Int } else { K::Float } }; a_field(field_of(rng, fk)) }
                else { num_atom(rng, lhs, depth, nk) };
    let n = *rng.pick(&[0u64, 0, 0, 1, 1, 2]);
    for _ in 0..n {
        // integer-only expressions mostly avoid '/', whose result may be a float
        let op = if nk == K::Int { *rng.pick(&['*', '*', '%', '%', '*', '/']) } else { *rng.pick(&['*', '*', '/', '%']) };
        let mut b = num_atom(rng, lhs, depth, nk);
        // a literal zero divisor is mostly avoided (division by zero is an evaluation error)
        if op != '*' && (b == a_lit(lit_int(0)) || b == a_lit(lit_num("0.0"))) && rng.chance(9, 10) { b = a_lit(if nk == K::Float { lit_num("2.0") } else { lit_int(2) }); }
        e = a_bin(op, e, b);
    }
    e
}
pub fn num_sum(rng: &mut Rng, lhs: bool, depth: u32, maxn: u64, nk: K) -> Sx {
    let mut e = num_prod(rng, lhs, depth, lhs, nk);
    let n = rng.below(maxn + 1);
    for _ in 0..n { e = a_bin(*rng.pick(&['+', '-']), e, num_prod(rng, lhs, depth, false, nk)); }
    e
}
pub fn num_kind(rng: &mut Rng) -> K { *rng.pick(&[K::Int, K::Int, K::Int, K::Float, K::Float, K::Absent]) }
pub fn str_sum(rng: &mut Rng) -> Sx {
    let mut e = if rng.chance(1, 2) { a_field(field_of(rng, K::Str)) } else { a_lit(str_lit(rng)) };
    for _ in 0..rng.below(3) { e = a_bin('+', e, if rng.chance(1, 2) { a_field(field_of(rng, K::Str)) } else { a_lit(str_lit(rng)) }); }
    e
}
pub fn scalar_lit(rng: &mut Rng) -> Sx {
    match rng.below(4) { 0 => lit_int(small_int(rng)), 1 => lit_num(*rng.pick(FLOATS)), 2 => str_lit(rng), _ => lit_bool(rng.chance(1, 2)) }
}
pub fn arr_lit(rng: &mut Rng, k: K) -> Sx {
    let n = rng.below(4);
    lit_arr((0..n).map(|_| match k { K::Int => lit_int(small_int(rng)), K::Str => str_lit(rng), _ => scalar_lit(rng) }).collect())
}

pub fn cmp(l: Sx, o: u64, r: Sx) -> Sx { Sx::l(vec![Sx::n(0), l, Sx::n(o), r]) }
const OPS6: &[u64] = &[0, 1, 2, 3, 4, 5];

pub fn gen_leaf(rng: &mut Rng) -> Sx {
    match if rng.chance(1, 20) { 12 + rng.below(2) * 3 } else { let k = rng.below(14); if k >= 12 { k + 1 } else { k } } {
        0..=4 => { // numeric comparison: == and != within one numeric kind, orderings also across
            let op = *rng.pick(OPS6);
            let nk = if op <= 1 { if rng.chance(3, 5) { K::Int } else { K::Float } } else { num_kind(rng) };
            let l = if rng.chance(1, 2) { a_field(field_of(rng, if nk == K::Float { K::Float } else { K::Int })) } else { num_sum(rng, true, 0, 2, nk) };
            let r = match rng.below(5) { 0 | 1 => num_atom(rng, false, 2, nk), 2 => a_field(field_of(rng, if nk == K::Float { K::Float } else { K::Int })),
                                        _ => num_sum(rng, false, 0, 2, nk) };
            cmp(l, op, r)
        }
        5..=7 => { // strings
            let l = a_field(field_of(rng, K::Str));
            let r = if rng.chance(2, 3) { a_lit(str_lit(rng)) } else { a_field(field_of(rng, K::Str)) };
            cmp(l, *rng.pick(&[0u64, 0, 1, 6, 8, 9]), r)
        }
        8 => cmp(a_field(field_of(rng, K::Bool)), *rng.pick(&[0u64, 1]), a_lit(lit_bool(rng.chance(1, 2)))),
        9 => cmp(a_field(any_field(rng)), *rng.pick(&[0u64, 1]), a_lit(lit_null())),
        10 => { let k = if rng.chance(1, 2) { K::Int } else { K::Str }; cmp(a_field(field_of(rng, k)), 11, a_lit(arr_lit(rng, k))) }
        11 => cmp(a_field(field_of(rng, K::Arr)), 6, a_lit(if rng.chance(1, 2) { str_lit(rng) } else { lit_int(small_int(rng)) })),
        12 => cmp(a_field(any_field(rng)), *rng.pick(OPS6), a_field(any_field(rng))),
        13 => cmp(a_field(field_of(rng, K::Str)), 0, str_sum(rng)),
        14 => cmp(a_field(field_of(rng, K::Arr)), *rng.pick(&[0u64, 1]), a_lit(arr_lit(rng, K::Str))),
        _ => { // anything against anything
            let r = match rng.below(4) { 0 => a_lit(scalar_lit(rng)), 1 => a_field(any_field(rng)), 2 => a_lit(arr_lit(rng, K::Absent)), _ => num_sum(rng, false, 0, 1, K::Absent) };
            cmp(a_field(any_field(rng)), *rng.pick(&[0u64, 1, 2, 3, 4, 5, 6, 8, 9, 11]), r)
        }
    }
}
pub fn gen_cond(rng: &mut Rng, depth: u32) -> Sx {
    if depth == 0 || rng.chance(2, 5) { return gen_leaf(rng); }
    match rng.below(5) {
        0 | 1 => Sx::l(vec![Sx::n(1), gen_cond(rng, depth - 1), gen_cond(rng, depth - 1)]),
        2 | 3 => Sx::l(vec![Sx::n(2), gen_cond(rng, depth - 1), gen_cond(rng, depth - 1)]),
        _ => Sx::l(vec![Sx::n(3), gen_cond(rng, depth - 1)]),
    }
}
fn gen_set(rng: &mut Rng) -> Sx {
    let target: Vec<&str> = match rng.below(10) {
        0..=3 => any_field(rng).to_vec(),
        4 => vec!["out"], 5 => vec!["User", "out"], 6 => vec!["Order", "cust", "out"], 7 => vec!["Ghost", "y"],
        8 => vec!["n1", "sub"], _ => vec!["res", "a", "b"],
    };
    let e = match rng.below(8) {
        0..=2 => { let nk = num_kind(rng); num_sum(rng, false, 0, 2, nk) }
        3 => str_sum(rng),
        4 => a_lit(scalar_lit(rng)),
        5 => { let k = *rng.pick(&[K::Int, K::Float, K::Str, K::Bool, K::Arr]); a_field(field_of(rng, k)) }
        6 => a_lit(lit_int(-small_int(rng))),
        _ => a_bin(*rng.pick(&['+', '-', '*']), a_field(field_of(rng, K::Int)), a_lit(lit_int(small_int(rng)))),
    };
    Sx::l(vec![path_sx(&target), e])
}

fn gen_value(rng: &mut Rng, k: K) -> Sx {
    let k = if rng.chance(1, 30) { *rng.pick(&[K::Int, K::Float, K::Str, K::Bool, K::Arr]) } else { k };
    match k {
        K::Int => Sx::l(vec![Sx::n(0), Sx::i(if rng.chance(1, 30) { *rng.pick(&[i64::MAX, i64::MIN, 9007199254740993, -9007199254740993]) }
                                               else if rng.chance(1, 8) { -small_int(rng) } else { small_int(rng) })]),
        K::Float => { let t: f64 = if rng.chance(1, 25) { *rng.pick(&[f64::NAN, f64::INFINITY, -0.0, 1e300, 5e-324]) }
                                   else { let x: f64 = rng.pick(FLOATS).parse().unwrap(); if rng.chance(1, 8) { -x } else { x } };
                      Sx::l(vec![Sx::n(1), Sx::A(fbits(t) as i128)]) }
        K::Str => Sx::l(vec![Sx::n(2), Sx::s(if rng.chance(1, 12) { *rng.pick(ODD_STRS) } else { *rng.pick(STRS) })]),
        K::Bool => Sx::l(vec![Sx::n(3), Sx::b(rng.chance(1, 2))]),
        K::Arr => { let n = rng.below(4); let ek = if rng.chance(1, 2) { K::Str } else { K::Int };
                    Sx::l(vec![Sx::n(5), Sx::l((0..n).map(|_| gen_value(rng, ek)).collect())]) }
        K::Absent => Sx::l(vec![Sx::n(4)]),
    }
}
fn fbits(x: f64) -> u64 { if x.is_nan() { 0x7FF8_0000_0000_0000 } else { x.to_bits() } }

fn gen_facts(rng: &mut Rng) -> Sx {
    // nested insertion into an s-expression object tree
    fn put(obj: &mut Vec<(String, Sx)>, path: &[&str], v: Sx) {
        if path.len() == 1 { obj.push((path[0].to_string(), v)); return; }
        let pos = obj.iter().position(|(k, _)| k == path[0]);
        let mut sub: Vec<(String, Sx)> = match pos {
            Some(i) => obj[i].1.at(1).as_l().iter().map(|kv| (kv.at(0).as_s(), kv.at(1).clone())).collect(),
            None => vec![],
        };
        put(&mut sub, &path[1..], v);
        let o = Sx::l(vec![Sx::n(6), Sx::l(sub.into_iter().map(|(k, v)| Sx::l(vec![Sx::s(&k), v])).collect())]);
        match pos { Some(i) => obj[i].1 = o, None => obj.push((path[0].to_string(), o)) }
    }
    PRESENT.with(|pp| pp.borrow_mut().clear());
    let mut top: Vec<(String, Sx)> = vec![];
    let drop_user = rng.chance(1, 20); let drop_order = rng.chance(1, 20);
    for (p, k) in FIELDS {
        if *k == K::Absent { continue; }
        if (p[0] == "User" && drop_user) || (p[0] == "Order" && drop_order) { continue; }
        if rng.chance(1, 12) { continue; }
        let v = gen_value(rng, *k);
        let vk = match v.at(0).as_u() { 0 => K::Int, 1 => K::Float, 2 => K::Str, 3 => K::Bool, _ => K::Arr };
        PRESENT.with(|pp| pp.borrow_mut().push((*p, vk)));
        put(&mut top, p, v);
    }
    Sx::l(top.into_iter().map(|(k, v)| Sx::l(vec![Sx::s(&k), v])).collect())
}

pub fn gen(tier: Tier, rng: &mut Rng) -> Vec<Sx> {
    let n = if tier == Tier::Thorough { 60000 } else { 6000 };
    let mut v = vec![];
    for _ in 0..n {
        let k = *rng.pick(&[1u64, 1, 2, 2, 3, 4]);
        let mut sal = vec![0i64, 3, 7, 10, 20]; rng.shuffle(&mut sal);
        let facts = gen_facts(rng);
        let rules: Vec<Sx> = (0..k).map(|i| {
            let depth = *rng.pick(&[0u32, 1, 1, 2, 2, 3, 4, 6]);
            let ns = rng.range(1, 3);
            Sx::l(vec![Sx::i(sal[i as usize]), gen_cond(rng, depth), Sx::l((0..ns).map(|_| gen_set(rng)).collect())])
        }).collect();
        v.push(Sx::l(vec![Sx::l(rules), facts]));
    }
    // feeding chains: a lower-salience rule writes (flat or nested) the very field a higher-salience rule tests, so that
    // the higher rule is false when first considered and true in the next pass (its condition must be re-evaluated)
    for _ in 0..n / 4 {
        let fields: [&[&str]; 5] = [&["n1"], &["n2"], &["User", "age"], &["Order", "qty"], &["Order", "cust", "level"]];
        let len = rng.range(2, 4) as usize;
        let mut order: Vec<usize> = (0..5).collect(); rng.shuffle(&mut order);
        let chain: Vec<&[&str]> = order.iter().take(len + 1).map(|&i| fields[i]).collect();
        // facts: every chain field present and small; the other schema fields random
        let mut facts_sx = gen_facts(rng);
        let start = rng.range(0, 3) as i64;
        let _ = &mut facts_sx;
        let mut sal = vec![30i64, 20, 10, 5, 1];
        if rng.chance(1, 4) { sal.reverse(); }          // sometimes the feeder is considered first (then one pass is enough)
        let mut rules = vec![];
        for i in 0..len {
            // rule i: when chain[i+1] >= t  then chain[i] = chain[i] + d   (fed by rule i+1); the last rule starts the chain
            let t = rng.range(3, 6) as i64;
            let c = cmp(a_field(chain[i + 1]), 3, a_lit(lit_int(t)));
            let e = if rng.chance(1, 2) { a_lit(lit_int(t + rng.range(0, 3) as i64 + 10)) } else { a_bin('+', a_field(chain[i]), a_lit(lit_int(10))) };
            rules.push(Sx::l(vec![Sx::i(sal[i]), c, Sx::l(vec![Sx::l(vec![path_sx(chain[i]), e])])]));
        }
        // starter: always true on the initial facts, sets the last field of the chain high
        let starter = cmp(a_field(chain[len]), 4, a_lit(lit_int(3)));
        rules.push(Sx::l(vec![Sx::i(sal[len]), starter, Sx::l(vec![Sx::l(vec![path_sx(chain[len]), a_lit(lit_int(9))])])]));
        // explicit small facts for the chain fields
        let mut top: Vec<Sx> = vec![];
        let mut user: Vec<Sx> = vec![]; let mut order_o: Vec<Sx> = vec![];
        for f in &fields {
            let v = Sx::l(vec![Sx::n(0), Sx::i(start)]);
            match f.len() { 1 => top.push(Sx::l(vec![Sx::s(f[0]), v])),
                            2 => if f[0] == "User" { user.push(Sx::l(vec![Sx::s(f[1]), v])) } else { order_o.push(Sx::l(vec![Sx::s(f[1]), v])) },
                            _ => order_o.push(Sx::l(vec![Sx::s("cust"), Sx::l(vec![Sx::n(6), Sx::l(vec![Sx::l(vec![Sx::s("level"), v])])])])) }
        }
        top.push(Sx::l(vec![Sx::s("User"), Sx::l(vec![Sx::n(6), Sx::l(user)])]));
        top.push(Sx::l(vec![Sx::s("Order"), Sx::l(vec![Sx::n(6), Sx::l(order_o)])]));
        v.push(Sx::l(vec![Sx::l(rules), Sx::l(top)]));
    }
    v
}

// ---------- printer (must agree with ForwardSpec.pr / pr_cond) ----------
pub fn pr_lit(l: &Sx) -> String {
    match l.at(0).as_u() {
        0 => format!("{}", l.at(1).as_i()),
        1 => l.at(1).as_s(),
        2 => format!("\"{}\"", l.at(1).as_s()),
        3 => if l.at(1).as_b() { "true".into() } else { "false".into() },
        4 => "null".into(),
        _ => format!("[{}]", l.at(1).as_l().iter().map(pr_lit).collect::<Vec<_>>().join(", ")),
    }
}
pub fn pr_path(p: &Sx) -> String { p.as_l().iter().map(|s| s.as_s()).collect::<Vec<_>>().join(".") }
pub fn pr_aexp(e: &Sx) -> String {
    match e.at(0).as_u() {
        0 => pr_lit(e.at(1)),
        1 => pr_path(e.at(1)),
        2 => format!("{} {} {}", pr_aexp(e.at(2)), char::from_u32(e.at(1).as_u() as u32).unwrap(), pr_aexp(e.at(3))),
        _ => format!("({})", pr_aexp(e.at(1))),
    }
}
pub fn op_str(o: u64) -> &'static str {
    match o { 0 => "==", 1 => "!=", 2 => ">", 3 => ">=", 4 => "<", 5 => "<=", 6 => "contains", 8 => "startsWith", 9 => "endsWith", 11 => "in", _ => "??" }
}
pub fn pr_cond(c: &Sx) -> String {
    let wrap = |x: &Sx| if matches!(x.at(0).as_u(), 1 | 2) { format!("({})", pr_cond(x)) } else { pr_cond(x) };
    match c.at(0).as_u() {
        0 => format!("{} {} {}", pr_aexp(c.at(1)), op_str(c.at(2).as_u()), pr_aexp(c.at(3))),
        1 => format!("{} && {}", wrap(c.at(1)), wrap(c.at(2))),
        2 => format!("{} || {}", wrap(c.at(1)), wrap(c.at(2))),
        _ => format!("!({})", pr_cond(c.at(1))),
    }
}
pub fn grl_text(rules: &Sx) -> String {
    let mut t = String::new();
    for (i, r) in rules.as_l().iter().enumerate() {
        t.push_str(&format!("rule \"R{}\" salience {} no-loop {{\n    when\n        {}\n    then\n", i, r.at(0).as_i(), pr_cond(r.at(1))));
        for s in r.at(2).as_l() { t.push_str(&format!("        {} = {};\n", pr_path(s.at(0)), pr_aexp(s.at(1)))); }
        t.push_str("}\n\n");
    }
    t
}

// ---------- values and parsed rules as s-expressions ----------
pub fn val_of_sx(v: &Sx) -> Value {
    match v.at(0).as_u() {
        0 => Value::Integer(v.at(1).as_i() as i64),
        1 => Value::Number(f64::from_bits(v.at(1).as_i() as u64)),
        2 => Value::String(v.at(1).as_s()),
        3 => Value::Boolean(v.at(1).as_b()),
        4 => Value::Null,
        5 => Value::Array(v.at(1).as_l().iter().map(val_of_sx).collect()),
        _ => Value::Object(v.at(1).as_l().iter().map(|kv| (kv.at(0).as_s(), val_of_sx(kv.at(1)))).collect()),
    }
}
pub fn sx_of_val(v: &Value) -> Sx {
    match v {
        Value::Integer(i) => Sx::l(vec![Sx::n(0), Sx::i(*i)]),
        Value::Number(x) => Sx::l(vec![Sx::n(1), Sx::A(fbits(*x) as i128)]),
        Value::String(s) => Sx::l(vec![Sx::n(2), Sx::s(s)]),
        Value::Boolean(b) => Sx::l(vec![Sx::n(3), Sx::b(*b)]),
        Value::Null => Sx::l(vec![Sx::n(4)]),
        Value::Array(a) => Sx::l(vec![Sx::n(5), Sx::l(a.iter().map(sx_of_val).collect())]),
        Value::Object(o) => { let mut ks: Vec<&String> = o.keys().collect(); ks.sort();
            Sx::l(vec![Sx::n(6), Sx::l(ks.into_iter().map(|k| Sx::l(vec![Sx::s(k), sx_of_val(&o[k])])).collect())]) }
        Value::Expression(s) => Sx::l(vec![Sx::n(7), Sx::s(s)]),
    }
}
pub fn sx_of_facts(m: &HashMap<String, Value>) -> Sx {
    let mut ks: Vec<&String> = m.keys().collect(); ks.sort();
    Sx::l(ks.into_iter().map(|k| Sx::l(vec![Sx::s(k), sx_of_val(&m[k])])).collect())
}
fn op_code(o: &Operator) -> u64 {
    match o { Operator::Equal => 0, Operator::NotEqual => 1, Operator::GreaterThan => 2, Operator::GreaterThanOrEqual => 3, Operator::LessThan => 4,
              Operator::LessThanOrEqual => 5, Operator::Contains => 6, Operator::NotContains => 7, Operator::StartsWith => 8, Operator::EndsWith => 9,
              Operator::Matches => 10, Operator::In => 11 }
}
pub fn sx_of_group(g: &ConditionGroup) -> Sx {
    match g {
        ConditionGroup::Single(c) => match &c.expression {
            ConditionExpression::Field(n) => Sx::l(vec![Sx::n(0), Sx::l(vec![Sx::n(0), Sx::s(n)]), Sx::n(op_code(&c.operator)), sx_of_val(&c.value)]),
            ConditionExpression::Test { name, args } if args.is_empty() => Sx::l(vec![Sx::n(0), Sx::l(vec![Sx::n(1), Sx::s(name)])]),
            ConditionExpression::Test { name, args } => Sx::l(vec![Sx::n(0), Sx::l(vec![Sx::n(2), Sx::s(name), Sx::l(args.iter().map(|a| Sx::s(a)).collect())])]),
            ConditionExpression::FunctionCall { name, args } => Sx::l(vec![Sx::n(0), Sx::l(vec![Sx::n(3), Sx::s(name), Sx::l(args.iter().map(|a| Sx::s(a)).collect())]),
                                                                         Sx::n(op_code(&c.operator)), sx_of_val(&c.value)]),
            ConditionExpression::MultiField { field, operation, .. } => Sx::l(vec![Sx::n(0), Sx::l(vec![Sx::n(4), Sx::s(field), Sx::s(operation)]),
                                                                         Sx::n(op_code(&c.operator)), sx_of_val(&c.value)]),
        },
        ConditionGroup::Compound { left, operator, right } => Sx::l(vec![Sx::n(match operator { LogicalOperator::And => 1, LogicalOperator::Or => 2, LogicalOperator::Not => 8 }),
                                                                         sx_of_group(left), sx_of_group(right)]),
        ConditionGroup::Not(a) => Sx::l(vec![Sx::n(3), sx_of_group(a)]),
        _ => Sx::l(vec![Sx::n(9)]),
    }
}
pub fn sx_of_rule(r: &Rule) -> Sx {
    Sx::l(vec![Sx::i(r.salience as i64), sx_of_group(&r.conditions),
        Sx::l(r.actions.iter().map(|a| match a {
            ActionType::Set { field, value } => Sx::l(vec![Sx::s(field), sx_of_val(value)]),
            other => Sx::l(vec![Sx::n(9), Sx::s(&format!("{:?}", other))]),
        }).collect())])
}

pub fn run(case: &Sx) -> (Sx, String) {
    let text = grl_text(case.at(0));
    let rules = match GRLParser::parse_rules(&text) {
        Ok(r) => r,
        Err(e) => return (Sx::l(vec![Sx::l(vec![Sx::n(9), Sx::s(&format!("{}", e))]), Sx::l(vec![]), Sx::l(vec![]), Sx::l(vec![])]), "parse error".into()),
    };
    let parsed = Sx::l(rules.iter().map(sx_of_rule).collect());
    let names_ok = rules.iter().enumerate().all(|(i, r)| r.name == format!("R{}", i) && r.no_loop && r.enabled);
    let kb = KnowledgeBase::new("c01");
    for r in rules { kb.add_rule(r).unwrap(); }
    let mut engine = RustRuleEngine::new(kb);
    let facts = Facts::new();
    for kv in case.at(1).as_l() { facts.add_value(&kv.at(0).as_s(), val_of_sx(kv.at(1))).unwrap(); }
    let mut log: Vec<Sx> = vec![];
    let res = engine.execute_with_callback(&facts, |name, f| {
        log.push(Sx::l(vec![Sx::i(name[1..].parse::<i64>().unwrap()), sx_of_facts(&f.get_all_facts())]));
    });
    let nfired = log.len();
    let result = match &res {
        Ok(r) => Sx::l(vec![Sx::n(0), Sx::us(r.cycle_count), Sx::us(r.rules_evaluated), Sx::us(r.rules_fired)]),
        Err(_) => Sx::l(vec![Sx::n(1), Sx::n(1)]),
    };
    // the same input through the plain `execute` entry point (a separate copy of the loop in engine.rs): result and final facts
    let fin = {
        let rules2 = GRLParser::parse_rules(&text).unwrap();
        let kb2 = KnowledgeBase::new("c01b");
        for r in rules2 { kb2.add_rule(r).unwrap(); }
        let mut engine2 = RustRuleEngine::new(kb2);
        let facts2 = Facts::new();
        for kv in case.at(1).as_l() { facts2.add_value(&kv.at(0).as_s(), val_of_sx(kv.at(1))).unwrap(); }
        let r2 = engine2.execute(&facts2);
        let res2 = match &r2 {
            Ok(r) => Sx::l(vec![Sx::n(0), Sx::us(r.cycle_count), Sx::us(r.rules_evaluated), Sx::us(r.rules_fired)]),
            Err(_) => Sx::l(vec![Sx::n(1), Sx::n(1)]),
        };
        Sx::l(vec![res2, sx_of_facts(&facts2.get_all_facts())])
    };
    let parsed = if names_ok { parsed } else { Sx::l(vec![Sx::n(8)]) };
    let label = match (&res, nfired) { (Err(_), _) => "error", (_, 0) => "trivial: no rule fired", (_, 1) => "fires 1", _ => "fires many" };
    (Sx::l(vec![parsed, Sx::l(log), result, fin]), label.to_string())
}
