//! C13 — WatermarkedStream under every watermark / late-data strategy.
//! case = (wkind wparam lkind lparam ((id ts) ...))
use crate::rng::Rng;
use crate::sx::Sx;
use crate::Tier;
use rust_rule_engine::streaming::event::StreamEvent;
use rust_rule_engine::streaming::watermark::*;
use std::collections::HashMap;
use std::time::Duration;

fn mk_case(wk: u64, wp: u64, lk: u64, lp: u64, ts: &[u64]) -> Sx {
    Sx::l(vec![Sx::n(wk), Sx::n(wp), Sx::n(lk), Sx::n(lp),
        Sx::l(ts.iter().enumerate().map(|(i, t)| Sx::l(vec![Sx::n(i as u64), Sx::n(*t)])).collect())])
}

pub fn gen(tier: Tier, rng: &mut Rng) -> Vec<Sx> {
    let mut v = vec![];
    // exhaustive small scope: all sequences of length <= L over timestamps 0..D, delays 0..3, all strategy pairs
    let (len_max, dom) = if tier == Tier::Thorough { (5usize, 5u64) } else { (4usize, 4u64) };
    let strategies: Vec<(u64, u64)> = vec![(0, 0), (0, 1), (0, 2), (0, 3), (1, 0), (2, 0), (3, 0), (3, 1)];
    let lates: Vec<(u64, u64)> = vec![(0, 0), (1, 0), (1, 1), (1, 2), (2, 0), (3, 0)];
    for len in 0..=len_max {
        let total = dom.pow(len as u32);
        for code in 0..total {
            let mut ts = vec![]; let mut c = code;
            for _ in 0..len { ts.push(c % dom); c /= dom; }
            // not every strategy pair on every sequence in quick: rotate deterministically
            for (si, s) in strategies.iter().enumerate() {
                for (li, l) in lates.iter().enumerate() {
                    if tier == Tier::Quick && (code as usize + si + li) % 6 != 0 && len >= 3 { continue; }
                    v.push(mk_case(s.0, s.1, l.0, l.1, &ts));
                }
            }
        }
    }
    // random longer histories, including large timestamps (u64 range) and shuffles/reversals
    let n = if tier == Tier::Thorough { 60000 } else { 3000 };
    for _ in 0..n {
        let len = rng.range(1, 12) as usize;
        let big = rng.chance(1, 10);
        let dom = if big { u64::MAX } else { *rng.pick(&[4u64, 8, 20, 1000]) };
        let mut ts: Vec<u64> = (0..len).map(|_| if big { rng.next() } else { rng.below(dom) }).collect();
        match rng.below(4) { 0 => ts.sort(), 1 => { ts.sort(); ts.reverse(); } _ => {} }
        let s = *rng.pick(&strategies);
        let wp = if s.0 == 0 { *rng.pick(&[0u64, 1, 2, 3, 5, 50, 100000]) } else { s.1 };
        let l = *rng.pick(&lates);
        let lp = if l.0 == 1 { *rng.pick(&[0u64, 1, 2, 3, 10, 1000]) } else { 0 };
        v.push(mk_case(s.0, wp, l.0, lp, &ts));
    }
    v
}

pub fn run(case: &Sx) -> (Sx, String) {
    let wk = case.at(0).as_u(); let wp = case.at(1).as_u();
    let lk = case.at(2).as_u(); let lp = case.at(3).as_u();
    let ws = match wk {
        0 => WatermarkStrategy::BoundedOutOfOrder { max_delay: Duration::from_millis(wp) },
        1 => WatermarkStrategy::MonotonicAscending,
        2 => WatermarkStrategy::Custom,
        // Periodic: interval 0 => the interval has always elapsed; one hour => never within a run
        _ => WatermarkStrategy::Periodic { interval: if wp != 0 { Duration::ZERO } else { Duration::from_secs(3600) } },
    };
    let ls = match lk {
        0 => LateDataStrategy::Drop,
        1 => LateDataStrategy::AllowedLateness { max_lateness: Duration::from_millis(lp) },
        2 => LateDataStrategy::SideOutput,
        _ => LateDataStrategy::RecomputeWindows,
    };
    let mut st = WatermarkedStream::new(ws, ls);
    let mut obs = vec![];
    let id_of = |e: &StreamEvent| -> u64 { e.id.parse::<u64>().unwrap() };
    let mut nlate = 0; let mut nadv = 0; let mut last = 0;
    for ev in case.at(4).as_l() {
        let id = ev.at(0).as_u(); let ts = ev.at(1).as_u();
        let mut e = StreamEvent::with_timestamp("t", HashMap::new(), "h", ts);
        e.id = id.to_string();
        st.add_event(e).unwrap();
        let stats = st.late_stats();
        let wm = st.current_watermark().timestamp;
        if wm != last { nadv += 1; last = wm; }
        nlate = stats.total_late;
        obs.push(Sx::l(vec![
            Sx::n(wm),
            Sx::ns(st.watermark_history().iter().map(|w| w.timestamp)),
            Sx::ns(st.events().iter().map(id_of)),
            Sx::ns(st.side_output().iter().map(id_of)),
            Sx::us(stats.total_late), Sx::us(stats.dropped), Sx::us(stats.allowed), Sx::us(stats.side_output),
        ]));
    }
    let label = if nlate > 0 && nadv > 0 { format!("late+adv w{} l{}", wk, lk) } else if nadv > 0 { "adv-only".into() } else { "trivial".into() };
    (Sx::l(obs), label)
}
