//! C05 — every parser entry point and the expression evaluator on arbitrary UTF-8 text.
//! case = (entry (code point ...)) ; observation = (class leaf) with class 0 Ok / 1 Err / 2 panic (caught);
//! a stack overflow, abort or hang is detected by the parent process (isolated mode in main.rs).
use crate::rng::Rng;
use crate::sx::Sx;
use crate::Tier;
use rust_rule_engine::engine::facts::Facts;

pub const ENTRIES: [&str; 14] = ["expr-ident", "expr-any", "grl-rules", "grl-modules", "bw-query", "bw-expr", "grl-query", "grl-queries",
    "stream-pattern", "stream-join", "aggregate", "disjunction", "nested", "nested-has"];

/// the AST of the backward-chaining expression parser, in the encoding of coq/Model/BwExpr.v
fn enc_bexp(e: &rust_rule_engine::backward::expression::Expression) -> Sx {
    use rust_rule_engine::backward::expression::Expression as E;
    use rust_rule_engine::types::{Operator as O, Value as V};
    match e {
        E::Field(s) => Sx::l(vec![Sx::n(0), Sx::s(s)]),
        E::Literal(v) => Sx::l(vec![Sx::n(1), match v {
            V::Boolean(b) => Sx::l(vec![Sx::n(0), Sx::b(*b)]), V::Null => Sx::l(vec![Sx::n(1)]), V::String(t) => Sx::l(vec![Sx::n(2), Sx::s(t)]),
            V::Number(x) => Sx::l(vec![Sx::n(3), Sx::n(if x.is_nan() { 0x7ff8000000000000 } else { x.to_bits() })]), _ => Sx::l(vec![Sx::n(9)]) }]),
        E::Variable(s) => Sx::l(vec![Sx::n(2), Sx::s(s)]),
        E::Comparison { left, operator, right } => Sx::l(vec![Sx::n(3), enc_bexp(left),
            Sx::n(match operator { O::Equal => 0, O::NotEqual => 1, O::GreaterThanOrEqual => 2, O::LessThanOrEqual => 3, O::GreaterThan => 4, O::LessThan => 5, _ => 9 }), enc_bexp(right)]),
        E::And { left, right } => Sx::l(vec![Sx::n(4), enc_bexp(left), enc_bexp(right)]),
        E::Or { left, right } => Sx::l(vec![Sx::n(5), enc_bexp(left), enc_bexp(right)]),
        E::Not(x) => Sx::l(vec![Sx::n(6), enc_bexp(x)]),
    }
}

fn call(entry: u64, s: &str) -> (u64, Option<String>) {
    use rust_rule_engine::backward as bw;
    use rust_rule_engine::parser::grl::{stream_syntax as ss, GRLParser};
    fn r<T, E>(x: Result<T, E>) -> (u64, Option<String>) { (if x.is_ok() { 0 } else { 1 }, None) }
    match entry {
        0 | 1 => match rust_rule_engine::expression::evaluate_expression(s, &Facts::new()) {
            Ok(_) => (0, None),
            Err(e) => { let m = e.to_string(); let leaf = m.find("Field '").and_then(|i| m.rfind("' not found").map(|j| m[i + 7..j].to_string())); (1, leaf) }
        },
        2 => r(GRLParser::parse_rules(s)),
        3 => r(GRLParser::parse_with_modules(s)),
        4 => match bw::query::QueryParser::parse(s) { Ok(g) => (0, g.expression.as_ref().map(|e| Sx::l(vec![Sx::b(g.is_negated), enc_bexp(e)]).show())), Err(_) => (1, None) },
        5 => match bw::expression::ExpressionParser::parse(s) { Ok(e) => (0, Some(enc_bexp(&e).show())), Err(_) => (1, None) },
        6 => r(bw::grl_query::GRLQueryParser::parse(s)),
        7 => r(bw::grl_query::GRLQueryParser::parse_queries(s)),
        8 => r(ss::parse_stream_pattern(s)),
        9 => r(ss::parse_stream_join_pattern(s)),
        10 => match bw::aggregation::parse_aggregate_query(s) {
            Ok(q) => { use bw::aggregation::AggregateFunction as F;
                let (k, var) = match &q.function { F::Count => (0, String::new()), F::Sum(v) => (1, v.clone()), F::Avg(v) => (2, v.clone()), F::Min(v) => (3, v.clone()),
                                                   F::Max(v) => (4, v.clone()), F::First => (5, String::new()), F::Last => (6, String::new()) };
                (0, Some(Sx::l(vec![Sx::n(k), Sx::s(&var), Sx::s(&q.pattern), Sx::l(q.filter.iter().map(|f| Sx::s(f)).collect())]).show())) }
            Err(_) => (1, None) },
        11 => { let c = Sx::b(bw::disjunction::DisjunctionParser::contains_or(s));
                match bw::disjunction::DisjunctionParser::parse(s) {
                    Some(d) => (0, Some(Sx::l(vec![Sx::l(d.branches.iter().map(|g| Sx::s(&g.pattern)).collect()), c]).show())),
                    None => (1, Some(Sx::l(vec![c]).show())) } }
        12 => { let q = bw::nested::NestedQueryParser::parse(s); (0, Some(Sx::l(q.goals.iter().map(|g| Sx::s(&g.pattern)).collect()).show())) }
        _ => { let b = bw::nested::NestedQueryParser::has_nested(s); (0, Some(Sx::b(b).show())) }
    }
}

const SEEDS: [&str; 19] = [
    "rule \"R1\" salience 10 no-loop {\n  when\n    User.Age > 18 && (User.Country == \"US\" || User.IsVIP == true)\n  then\n    User.Adult = true;\n    Log(\"ok\");\n}",
    "defmodule SENSORS {\n  export: all\n}\nrule \"S\" agenda-group \"g\" { when X.a in [1, 2, 3] then X.b = X.a * 2 + 1; Retract(\"X\"); }",
    "rule R2 { when !(A.x == 1) && exists(B.y > 2) && forall(C.z < 3) then A.x = \"s;}\"; }",
    "rule \"Acc\" { when accumulate(Order($a: amount, status == \"ok\"), sum($a)) then T.total = $a; }",
    "User.IsVIP == true && Order.Total > 1000 || !(User.IsBanned == true)",
    "NOT User.Points > 100 && User.Level < 5",
    "(a == true || b == true) && c == \"x y\" && ?X != 42.5",
    "query \"Q\" {\n  goal: User.IsVIP == true\n  strategy: breadth-first\n  max-depth: 5\n  when: Env.Mode == \"Prod\"\n  on-success: { User.Rate = 0.2; LogMessage(\"VIP\"); }\n}",
    "query \"A\" { goal: A == true }\nquery \"B\" { goal: B == true strategy: iterative }",
    "login: LoginEvent from stream(\"logins\") over window(10 min, sliding)",
    "a: A from stream(\"s1\") over window(5 sec, tumbling) join b: B from stream(\"s2\") on a.k == b.k",
    "sum(?amount) WHERE purchase(?item, ?amount) AND ?amount > 10",
    "count(?x) WHERE employee(?x)",
    "(manager(?x) OR senior(?x)) AND salary(?x) > 100",
    "parent(?x, ?y) WHERE person(?x) AND (child(?y) WHERE age(?y) < 18)",
    "Order.quantity * (Order.price + 2) - Ünit.a % 3 / \"str\"",
    // string literals with escapes (a truncation right after a backslash, an escaped quote, an escaped backslash before the closing quote)
    "User.Name == \"ab\\\"c\\\\\" && User.Note != 'it\\'s' || X.path == \"C:\\\\dir\\n\"",
    "query \"E\" { goal: User.Name == \"a\\\"b\" on-success: { Log(\"x\\\\\"); } }",
    // numbers at the limits of u64 / i64 / f64 wherever a number is expected
    "e: Ev from stream(\"s\") over window(18446744073709551615 min, sliding)",
];
const BIGNUM: [&str; 8] = ["18446744073709551615", "18446744073709551616", "9223372036854775807", "9223372036854775808", "-9223372036854775809", "307445734561825861", "5124095576030432", "1e309"];
const TOKENS: [&str; 48] = ["rule", "when", "then", "salience", "no-loop", "defmodule", "import", "export", "query", "goal:", "strategy:", "on-success:",
    "from", "stream", "over", "window", "WHERE", "AND", "OR", "NOT", "exists", "forall", "accumulate", "test", "&&", "||", "!", "==", "!=", ">=", "<=", ">", "<",
    "(", ")", "{", "}", "[", "]", ";", ",", ":", "\"", "'", "$x", "?x", "1.5", "X.y"];
const MB: [char; 12] = ['é', '💥', '\u{85}', '\u{3000}', 'ß', '\u{a0}', '\u{130}', '\u{212a}', '\u{23a}', '\u{1e9e}', '\u{390}', '\u{fb01}'];
/// characters whose lower- or upper-case mapping has a different UTF-8 length (offsets computed on a case-folded copy are wrong for the original)
const CASELEN: [char; 6] = ['\u{130}', '\u{212a}', '\u{23a}', '\u{1e9e}', '\u{390}', '\u{fb01}'];

fn mk(entry: u64, s: &str) -> Sx { Sx::l(vec![Sx::n(entry), Sx::s(s)]) }

fn mutate(rng: &mut Rng, base: &str) -> String {
    let chars: Vec<char> = base.chars().collect();
    let mut v = chars.clone();
    for _ in 0..rng.range(1, 4) {
        if v.is_empty() { v.push('x'); }
        let i = rng.below(v.len() as u64) as usize;
        match rng.below(7) {
            0 => { v.truncate(i); }
            1 => { let j = rng.below(v.len() as u64) as usize; let (a, b) = (i.min(j), i.max(j)); let seg: Vec<char> = v[a..b].to_vec(); for (k, c) in seg.iter().enumerate() { v.insert(b + k, *c); } }
            2 => { v.insert(i, *rng.pick(&MB)); }
            3 => { let other: Vec<char> = rng.pick(&SEEDS).chars().collect(); let j = rng.below(other.len() as u64) as usize; v.truncate(i); v.extend(other[j..].iter()); }
            4 => { v.remove(i); }
            5 => { for c in rng.pick(&TOKENS).chars() { v.insert(i, c); } }
            _ => { v[i] = *rng.pick(&['(', ')', '"', '{', '}', '!', ' ', '\n', '\\', '\0', '=', '.']); }
        }
        // now and then: replace one run of digits by a number at a limit
        if rng.chance(1, 6) {
            if let Some(a) = v.iter().position(|c| c.is_ascii_digit()) {
                let b = a + v[a..].iter().take_while(|c| c.is_ascii_digit()).count();
                let big: Vec<char> = rng.pick(&BIGNUM).chars().collect();
                v.splice(a..b, big);
            }
        }
        if v.len() > 3000 { v.truncate(3000); }
    }
    v.into_iter().collect()
}

pub fn gen(tier: Tier, rng: &mut Rng) -> Vec<Sx> {
    let mut v = vec![];
    let nent = ENTRIES.len() as u64;
    // 1. identifier-alphabet expressions for the evaluator (the model predicts the outcome exactly)
    let alpha: Vec<char> = "abx.é💥()+-*/% ".chars().collect();
    let n0 = if tier == Tier::Thorough { 40000 } else { 6000 };
    for _ in 0..n0 { let len = rng.range(0, 14); let s: String = (0..len).map(|_| *rng.pick(&alpha)).collect(); v.push(mk(0, &s)); }
    // all single insertions of multi-byte characters into a few expressions
    for base in ["a+b", "a * b - c", "(a+b)*c", "x", "a%b/c"] { for c in MB { let cs: Vec<char> = base.chars().collect(); for i in 0..=cs.len() {
        let mut w = cs.clone(); w.insert(i, c); let s: String = w.into_iter().collect(); v.push(mk(0, &s)); v.push(mk(1, &s)); } } }
    // 2. seeds and their mutants on every entry point
    for s in SEEDS { for e in 1..nent { v.push(mk(e, s)); } }
    let n1 = if tier == Tier::Thorough { 30000 } else { 5000 };
    for _ in 0..n1 { let base: &str = *rng.pick(&SEEDS); let s = mutate(rng, base); let e = rng.range(1, nent - 1); v.push(mk(e, &s)); if rng.chance(1, 3) { v.push(mk(rng.range(1, nent - 1), &s)); } }
    // 3. token soups
    let n2 = if tier == Tier::Thorough { 15000 } else { 3000 };
    for _ in 0..n2 { let k = rng.range(1, 30); let s: Vec<&str> = (0..k).map(|_| *rng.pick(&TOKENS)).collect(); let s = s.join(if rng.chance(1, 2) { " " } else { "" }); v.push(mk(rng.range(1, nent - 1), &s)); }
    // 4. raw bytes, lossily decoded
    let n3 = if tier == Tier::Thorough { 10000 } else { 2000 };
    for _ in 0..n3 { let k = rng.range(0, 64); let b: Vec<u8> = (0..k).map(|_| rng.below(256) as u8).collect(); v.push(mk(rng.range(1, nent - 1), &String::from_utf8_lossy(&b))); }
    // 4b. case-length-changing characters at token boundaries, on every entry point: (A) directly before a blank
    //     (a shrinking character just before a keyword), (B) somewhere before a blank-delimited token with a
    //     multi-byte character directly after that token (a growing character before a keyword, multi-byte text after it)
    for s in SEEDS {
        let cs: Vec<char> = s.chars().collect();
        let spaces: Vec<usize> = cs.iter().enumerate().filter(|(_, c)| **c == ' ').map(|(i, _)| i).collect();
        for (n, &k) in spaces.iter().enumerate() {
            let c = *rng.pick(&CASELEN);
            let mut a = cs.clone(); a.insert(k, c); if rng.chance(1, 3) { a.insert(k, c); }
            let mut b = cs.clone();
            if let Some(&k2) = spaces.get(n + 1) { b.insert(k2 + 1, *rng.pick(&MB)); } else { b.push(*rng.pick(&MB)); }
            let i = rng.below(k as u64 + 1) as usize; b.insert(i, c); if rng.chance(1, 2) { b.insert(i, c); b.insert(i, c); }
            let (ta, tb): (String, String) = (a.into_iter().collect(), b.into_iter().collect());
            for e in 1..nent { v.push(mk(e, &ta)); v.push(mk(e, &tb)); }
        }
    }
    // 4c. EVERY prefix of every seed (an input that stops anywhere: inside a string, right after a backslash, inside a
    //     number, between a keyword and its argument): on all entry points in the thorough tier, on three per prefix otherwise;
    //     and every seed with each of its digit runs replaced by each limit number
    for s in SEEDS {
        let cs: Vec<char> = s.chars().collect();
        for k in 0..cs.len() {
            let pre: String = cs[..k].iter().collect();
            if tier == Tier::Thorough { for e in 1..nent { v.push(mk(e, &pre)); } }
            else { for _ in 0..3 { v.push(mk(rng.range(1, nent - 1), &pre)); } }
        }
        let mut a = 0;
        while a < cs.len() {
            if cs[a].is_ascii_digit() {
                let b = a + cs[a..].iter().take_while(|c| c.is_ascii_digit()).count();
                for big in BIGNUM { let t: String = cs[..a].iter().chain(big.chars().collect::<Vec<char>>().iter()).chain(cs[b..].iter()).collect(); for e in 1..nent { v.push(mk(e, &t)); } }
                a = b;
            } else { a += 1; }
        }
    }
    // 4d. the backward-chaining expression parser on its own alphabet (the model predicts the AST): identifiers, literals of every
    //     kind, escapes, numbers with dots and signs, all operators, parentheses, negation, variables, blanks, a few non-ASCII
    //     characters of every class (letter, digit, other numeric, white space, symbol)
    let qalpha: Vec<&str> = vec!["a", "b", "X", "_", ".", "1", "0", "42", "-", "\"", "\\", "!", "(", ")", "?", "&&", "||", "==", "!=", ">=", "<=", ">", "<", "=", "&", "|",
        " ", "\t", "true", "false", "null", "n", "t", "é", "٣", "½", "\u{3000}", "💥", "ß", "1.5", "-7", "1.", ".5", "1.2.3", "--1", "truex", "null_", "9223372036854775808", "1e5"];
    let n4 = if tier == Tier::Thorough { 30000 } else { 5000 };
    for _ in 0..n4 { let k = rng.range(0, 12); let s: String = (0..k).map(|_| *rng.pick(&qalpha)).collect(); v.push(mk(5, &s));
        if rng.chance(1, 4) { let q = format!("{}{}", rng.pick(&["", "NOT ", " NOT  ", "NOT", "not "]), s); v.push(mk(4, &q)); } }
    for s in ["User.IsVIP == true && Order.Total > 1000 || !(User.IsBanned == true)", "(a == true || b == true) && c == \"x y\" && ?X != 42.5", "a == \"q\\\"r\\n\" || !(!b)", "  x  "] {
        let cs: Vec<char> = s.chars().collect();
        for k in 0..=cs.len() { let pre: String = cs[..k].iter().collect(); v.push(mk(5, &pre)); let suf: String = cs[k..].iter().collect(); v.push(mk(5, &suf)); }
    }
    // 4e. long arithmetic chains for the evaluator: 18..40 terms mixing + - with * / %, every identifier missing from the (empty) facts,
    //     parenthesised groups in between - a failing operand must be reported at once, whatever the length (the run is under the
    //     120 s watchdog; evaluation of these takes microseconds)
    let nchains = if tier == Tier::Thorough { 60 } else { 8 };
    for i in 0..nchains {
        let terms = rng.range(18, 40);
        let mut e = String::new();
        for t in 0..terms {
            if t > 0 { e.push_str(*rng.pick(&[" + ", " - ", " + ", " * ", " / ", " % ", "+", "*"])); }
            // entry 0 is the identifier alphabet (the model predicts the failing leaf exactly): no numerals there
            let ident_only = i % 2 == 0;
            let atom = match rng.below(6) { 0 => "a".to_string(), 1 => "x.b".to_string(), 2 if !ident_only => format!("{}", rng.below(100)), 3 if !ident_only => "2".to_string(),
                4 => format!("({} * {})", rng.pick(&["a", "b", "x"]), rng.pick(&["x", "a.b", "b"])), _ => "b".to_string() };
            e.push_str(&atom);
        }
        v.push(mk(if i % 2 == 0 { 0 } else { 1 }, &e));
        // the plain sum of products: `m * a + x * a + x * a + ...`
        let sp: Vec<String> = (0..terms).map(|t| format!("{} * {}", if t == 0 { "m" } else { "x" }, if i % 2 == 0 { "a" } else { "2" })).collect();
        v.push(mk(if i % 2 == 0 { 0 } else { 1 }, &sp.join(if rng.chance(1, 2) { " + " } else { " - " })));
    }
    // 4c. the aggregate / disjunction / nested-query parsers (entries 10..13, predicted exactly by Model/BwSmall.v): token strings over
    //     their own alphabet - keywords with and without their blanks, parentheses, quotes, function names in mixed case, multi-byte
    //     and case-length-changing characters next to every keyword and parenthesis
    const SMALL: [&str; 34] = ["(", ")", " OR ", " AND ", " WHERE ", "\"", "a", "b(?x)", "é", " ", "?x", "sum", "COUNT", "Avg", "first", "max", "mIn", "LAST",
        "(?v)", "()", "W", "WHERE", " OR", "OR ", "AND", "\u{3000}", "\u{130}", "\u{212a}", "ſum", "x > 1", "  ", "?", ")(", "💥"];
    let n4c = if tier == Tier::Thorough { 40000 } else { 4000 };
    for _ in 0..n4c {
        let k = rng.range(1, 12);
        let s: String = (0..k).map(|_| *rng.pick(&SMALL)).collect::<Vec<&str>>().concat();
        for e in 10..=13 { v.push(mk(e, &s)); }
    }
    // 4c'. the same three parsers on EVERY combination of a few operands in their documented shapes: blank and empty operands, nested
    //      parentheses, keywords inside quotes, multi-byte characters (an operand list that is empty after trimming is the boundary case)
    const OPND: [&str; 7] = ["", " ", "A", "(B OR C)", "\"x OR y\"", "é", "f(a, b)"];
    for a in OPND { for b in OPND {
        v.push(mk(11, &format!("({} OR {})", a, b))); v.push(mk(11, &format!("{} OR {}", a, b)));
        v.push(mk(12, &format!("g WHERE {} AND {}", a, b))); v.push(mk(13, &format!("g WHERE ({} WHERE {})", a, b)));
        for c in OPND { v.push(mk(11, &format!("({} OR {} OR {})", a, b, c))); v.push(mk(12, &format!("{} WHERE {} AND ({} WHERE x) AND {}", c, a, b, c))); }
    } }
    for f in ["count", "SUM", "Avg", "min", "max", "first", "last", "", "median", "é"] { for var in ["?x", "", " ", "?é", "x", "?"] { for tail in [" WHERE p(?x)", " WHERE p(?x) AND ?x > 1", " WHERE ", "", " WHERE  AND "] {
        v.push(mk(10, &format!("{}({}){}", f, var, tail))); v.push(mk(10, &format!(" {} ( {} ) {}", f, var, tail)));
    } } }
    // 4d. integer extremes in the evaluator (entry 1): every pair of {i64::MIN, i64::MIN + 1, i64::MAX, -1, 0, 1, 2, -2} under every operator, as
    //     literals and as the value of a parenthesised difference (an i64 quotient or remainder that does not exist must be an error or a float, not a panic)
    const EXT: [&str; 10] = ["-9223372036854775808", "-9223372036854775807", "9223372036854775807", "-1", "0", "1", "2", "-2",
        "(0 - 9223372036854775807 - 1)", "(9223372036854775806 + 1)"];
    for a in EXT { for b in EXT { for op in ["+", "-", "*", "/", "%"] {
        v.push(mk(1, &format!("{} {} {}", a, op, b)));
        if rng.chance(1, 4) { v.push(mk(1, &format!("{}{}{} {} {}", a, op, b, *rng.pick(&["+", "*", "/", "%"]), *rng.pick(&EXT)))); }
    } } }
    // 5. deep prefix chains and nesting up to 4 KiB
    for e in 1..nent { for (p, q) in [("!", ""), ("(", ""), ("(", ")"), ("[", "]"), ("{", "}"), ("NOT ", ""), ("-", ""), ("!(", ")"), ("exists(", ")")] {
        for n in [33usize, 500, 4000 / (p.len() + q.len()).max(1)] { let s = format!("{}X.a == 1{}", p.repeat(n), q.repeat(n)); v.push(mk(e, &s[..s.len().min(4096)])); } } }
    v
}

static LAST_LOC: std::sync::Mutex<String> = std::sync::Mutex::new(String::new());

pub fn run(case: &Sx) -> (Sx, String) {
    let entry = case.at(0).as_u(); let s = case.at(1).as_s();
    std::panic::set_hook(Box::new(|info| { if let Some(l) = info.location() { *LAST_LOC.lock().unwrap() = format!("{}:{}", l.file(), l.line()); } }));
    let r = std::panic::catch_unwind(|| call(entry, &s));
    match r {
        Ok((class, leaf)) => (Sx::l(vec![Sx::n(class), match leaf { Some(l) if entry == 0 => Sx::l(vec![Sx::s(&l)]), Some(l) if entry == 5 || entry == 4 || entry >= 10 => Sx::l(vec![Sx::parse(&l)]), _ => Sx::l(vec![]) }]),
                              format!("{} {}", ENTRIES[entry as usize], if class == 0 { "ok" } else { "err" })),
        Err(e) => { let msg = if let Some(s) = e.downcast_ref::<String>() { s.clone() } else if let Some(s) = e.downcast_ref::<&str>() { s.to_string() } else { "?".into() };
                    (Sx::l(vec![Sx::n(if LAST_LOC.lock().unwrap().contains("/rexile-") { 3 } else { 2 }), Sx::l(vec![])]), format!("{} PANIC at {} {}", ENTRIES[entry as usize], LAST_LOC.lock().unwrap(), msg.chars().take(60).collect::<String>().replace('\n', " "))) }
    }
}
