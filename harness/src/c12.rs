//! C12 — TimeWindow::record (sliding), WindowManager (tumbling), WindowedStream (tumbling).
//! case = (0 dur cap (ev ...)) | (1 dur cap maxw (ev ...)) | (2 dur cap (ev ...)); ev = (id ts fv)
use crate::rng::Rng;
use crate::sx::Sx;
use crate::Tier;
use rust_rule_engine::streaming::event::StreamEvent;
use rust_rule_engine::streaming::operators::{DataStream, WindowConfig};
use rust_rule_engine::streaming::window::{TimeWindow, WindowManager, WindowType};
use rust_rule_engine::types::Value;
use std::collections::HashMap;
use std::time::Duration;

fn mk_event(ev: &Sx) -> StreamEvent {
    let mut data = HashMap::new();
    let fv = ev.at(2);
    match fv.at(0).as_u() {
        1 => { data.insert("v".to_string(), Value::Number(f64::from_bits(fv.at(1).as_i() as u64))); }
        2 => { data.insert("v".to_string(), Value::Integer(fv.at(1).as_i() as i64)); }
        3 => { data.insert("v".to_string(), Value::String("x".into())); }
        _ => {}
    }
    let mut e = StreamEvent::with_timestamp("t", data, "h", ev.at(1).as_u());
    e.id = ev.at(0).as_u().to_string();
    e
}
fn id_of(e: &StreamEvent) -> u64 { e.id.parse().unwrap() }
/// floats cross as bit patterns; every NaN is canonicalised (payload and sign of a NaN carry no meaning)
pub fn fbits(x: f64) -> i128 { if x.is_nan() { 0x7ff8000000000000u64 as i128 } else { x.to_bits() as i128 } }
fn of(o: Option<f64>) -> Sx { Sx::opt(o.map(|x| Sx::A(fbits(x)))) }

fn gen_fv(rng: &mut Rng) -> Sx {
    match rng.below(10) {
        0 => Sx::l(vec![Sx::n(0)]),
        1 => Sx::l(vec![Sx::n(3)]),
        2..=5 => Sx::l(vec![Sx::n(2), Sx::i(rng.below(21) as i64 - 10)]),
        6 => Sx::l(vec![Sx::n(2), Sx::i(*rng.pick(&[i64::MAX, i64::MIN, 9007199254740993, -9007199254740993, 1 << 53]))]),
        7 => Sx::l(vec![Sx::n(1), Sx::A((*rng.pick(&[0.1f64, 0.2, 0.3, 1e300, -1e300, 1e-310, 2.5, -7.25, 1.0 / 3.0])).to_bits() as i128)]),
        8 => Sx::l(vec![Sx::n(1), Sx::A((*rng.pick(&[f64::INFINITY, f64::NEG_INFINITY, f64::NAN, f64::MAX, f64::MIN_POSITIVE])).to_bits() as i128)]),
        _ => Sx::l(vec![Sx::n(1), Sx::A((rng.below(1000) as f64 / 8.0).to_bits() as i128)]),
    }
}

fn events(ts: &[u64], rng: &mut Rng, numeric: bool) -> Sx {
    Sx::l(ts.iter().enumerate().map(|(i, t)| Sx::l(vec![Sx::n(i as u64), Sx::n(*t),
        if numeric { gen_fv(rng) } else { Sx::l(vec![Sx::n(2), Sx::i(i as i64 + 1)]) }])).collect())
}

pub fn gen(tier: Tier, rng: &mut Rng) -> Vec<Sx> {
    let mut v = vec![];
    // exhaustive timestamp sequences (every order, so late events) over a small dense domain
    let (lmax, dom) = if tier == Tier::Thorough { (6usize, 6u64) } else { (5usize, 5u64) };
    for len in 1..=lmax {
        for code in 0..dom.pow(len as u32) {
            let mut ts = vec![]; let mut c = code;
            for _ in 0..len { ts.push(c % dom); c /= dom; }
            let k = code as usize + len;
            let dur = [1u64, 2, 3][k % 3];
            let cap = [1u64, 2, 100][(k / 3) % 3];
            v.push(Sx::l(vec![Sx::n(0), Sx::n(dur), Sx::n(cap), events(&ts, rng, false)]));
            v.push(Sx::l(vec![Sx::n(1), Sx::n(dur), Sx::n(cap), Sx::n([1u64, 2, 100][(k / 9) % 3]), events(&ts, rng, false)]));
            if k % 4 == 0 { v.push(Sx::l(vec![Sx::n(2), Sx::n(dur), Sx::n(100), events(&ts, rng, false)])); }
        }
    }
    // random: up to 12 events, in order / reversed / shuffled, numeric/non-numeric/missing fields
    let n = if tier == Tier::Thorough { 200000 } else { 10000 };
    for _ in 0..n {
        let len = rng.range(1, 12) as usize;
        let dom = *rng.pick(&[6u64, 12, 40, 1000, 1 << 40]);
        let mut ts: Vec<u64> = (0..len).map(|_| rng.below(dom)).collect();
        match rng.below(4) { 0 => ts.sort(), 1 => { ts.sort(); ts.reverse(); } _ => {} }
        let dur = *rng.pick(&[1u64, 2, 3, 5, 10, 50, 1000]);
        let cap = *rng.pick(&[1u64, 2, 3, 5, 1000]);
        let tag = rng.below(3);
        let evs = events(&ts, rng, true);
        v.push(match tag {
            0 => Sx::l(vec![Sx::n(0), Sx::n(dur), Sx::n(cap), evs]),
            1 => Sx::l(vec![Sx::n(1), Sx::n(dur), Sx::n(cap), Sx::n(*rng.pick(&[1u64, 2, 3, 100])), evs]),
            _ => Sx::l(vec![Sx::n(2), Sx::n(dur), Sx::n(1000), evs]),
        });
    }
    // StreamAlphaNode under the injected clock: the clock advances, events arrive with timestamps around it
    // (in order, late within the window, too old, in the future), other streams / types mixed in
    let ns = if tier == Tier::Thorough { 120000 } else { 6000 };
    for _ in 0..ns {
        let kind = rng.below(2);
        let dur = *rng.pick(&[1u64, 2, 3, 5, 10, 50]);
        let cap = *rng.pick(&[1u64, 2, 3, 1000, 1000, 1000]);
        let mut now = rng.range(0, 30); let mut ops = vec![Sx::l(vec![Sx::n(0), Sx::n(now)])]; let mut id = 0u64;
        for _ in 0..rng.range(2, 12) {
            if rng.chance(1, 3) { now += *rng.pick(&[0u64, 1, 1, 2, 3, 7, 20]); ops.push(Sx::l(vec![Sx::n(0), Sx::n(now)])); }
            id += 1;
            let back = *rng.pick(&[0u64, 0, 1, 1, 2, 3, 4, 6, 11, 60]);
            let ts = if rng.chance(1, 12) { now + rng.range(1, 3) } else { now.saturating_sub(back) };
            ops.push(Sx::l(vec![Sx::n(1), Sx::n(id), Sx::n(ts), Sx::b(rng.chance(9, 10)), Sx::b(rng.chance(9, 10))]));
        }
        v.push(Sx::l(vec![Sx::n(3), Sx::n(kind), Sx::n(dur), Sx::n(cap), Sx::l(ops)]));
    }
    v
}

pub fn run(case: &Sx) -> (Sx, String) {
    let tag = case.at(0).as_u();
    if tag == 3 { return run_alpha(case); }
    let dur = case.at(1).as_u(); let cap = case.at(2).as_us();
    match tag {
        0 => {
            let mut w = TimeWindow::new(WindowType::Sliding, Duration::from_millis(dur), 0, cap);
            let mut obs = vec![]; let mut evicted = false; let mut ooo = false; let mut last = 0;
            for ev in case.at(3).as_l() {
                let e = mk_event(ev);
                if e.metadata.timestamp < last { ooo = true; } last = last.max(e.metadata.timestamp);
                let before = w.count();
                w.record(e);
                if w.count() <= before { evicted = true; }
                obs.push(Sx::l(vec![Sx::n(w.start_time), Sx::n(w.end_time), Sx::ns(w.events().iter().map(id_of)), Sx::us(w.count()),
                    Sx::A(fbits(w.sum("v"))), of(w.average("v")), of(w.min("v")), of(w.max("v"))]));
            }
            (Sx::l(obs), format!("record{}{}", if evicted { " evict" } else { "" }, if ooo { " late" } else { "" }))
        }
        1 => {
            let mut m = WindowManager::new(WindowType::Tumbling, Duration::from_millis(dur), cap, case.at(3).as_us());
            let mut obs = vec![]; let mut maxw = 0;
            for ev in case.at(4).as_l() {
                m.process_event(mk_event(ev));
                maxw = maxw.max(m.active_windows().len());
                obs.push(Sx::l(m.active_windows().iter().map(|w| Sx::l(vec![Sx::n(w.start_time), Sx::n(w.end_time), Sx::ns(w.events().iter().map(id_of))])).collect()));
            }
            (Sx::l(obs), if maxw > 1 { "manager multi".into() } else { "manager".into() })
        }
        _ => {
            let evs: Vec<StreamEvent> = case.at(3).as_l().iter().map(mk_event).collect();
            let n = evs.len();
            let ws = DataStream::from_events(evs).window(WindowConfig::tumbling(Duration::from_millis(dur)).with_max_events(cap));
            let mut wl: Vec<&TimeWindow> = ws.windows().iter().collect();
            wl.sort_by_key(|w| w.start_time);
            (Sx::l(wl.iter().map(|w| Sx::l(vec![Sx::n(w.start_time), Sx::n(w.end_time), Sx::ns(w.events().iter().map(id_of))])).collect()),
             if n > 1 { "windowed".into() } else { "trivial".into() })
        }
    }
}

/// StreamAlphaNode: case = (3 kind duration cap (op ...)), op = (0 t) set the injected clock | (1 id ts src_ok type_ok) an event
fn run_alpha(case: &Sx) -> (Sx, String) {
    use rust_rule_engine::rete::stream_alpha_node::{StreamAlphaNode, WindowSpec};
    let kind = case.at(1).as_u(); let dur = case.at(2).as_u(); let cap = case.at(3).as_us();
    let spec = WindowSpec { duration: Duration::from_millis(dur), window_type: if kind == 0 { WindowType::Sliding } else { WindowType::Tumbling } };
    let mut node = StreamAlphaNode::new("s", Some("T".to_string()), Some(spec)).with_max_events(cap);
    let mut obs = vec![]; let (mut acc, mut late) = (0, false); let mut maxts = 0u64;
    #[cfg(rre_verif)]
    rust_rule_engine::verif_hooks::set_clock_ms(Some(0));
    for o in case.at(4).as_l() {
        if o.at(0).as_u() == 0 {
            #[cfg(rre_verif)]
            rust_rule_engine::verif_hooks::set_clock_ms(Some(o.at(1).as_u()));
            obs.push(Sx::l(vec![]));
        } else {
            let ts = o.at(2).as_u();
            let mut e = StreamEvent::with_timestamp(if o.at(4).as_b() { "T" } else { "U" }, HashMap::new(), if o.at(3).as_b() { "s" } else { "other" }, ts);
            e.id = o.at(1).as_u().to_string();
            let m = node.process_event(&e);
            if m { acc += 1; if ts < maxts { late = true; } maxts = maxts.max(ts); }
            obs.push(Sx::l(vec![Sx::b(m), Sx::ns(node.get_events().iter().map(id_of))]));
        }
    }
    #[cfg(rre_verif)]
    rust_rule_engine::verif_hooks::set_clock_ms(None);
    (Sx::l(obs), if acc == 0 { "trivial: alpha node accepted nothing".into() } else { format!("alpha {}{}", if kind == 0 { "sliding" } else { "tumbling" }, if late { " late" } else { "" }) })
}
