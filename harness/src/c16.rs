//! C16 — alpha memory index (0), beta join-key index (1), memoised evaluation (2), conclusion index (3).
use crate::rng::Rng;
use crate::sx::Sx;
use crate::Tier;
use rust_rule_engine::backward::conclusion_index::ConclusionIndex;
use rust_rule_engine::engine::rule::{Condition, ConditionGroup, Rule};
use rust_rule_engine::rete::{AlphaMemoryIndex, AlphaNode, BetaMemoryIndex, FactValue, MemoizedEvaluator, ReteUlNode, TypedFacts};
use rust_rule_engine::types::{ActionType, Operator, Value};

fn enc_v(v: &FactValue) -> Sx {
    match v {
        FactValue::String(s) => Sx::l(vec![Sx::n(0), Sx::s(s)]),
        FactValue::Integer(i) => Sx::l(vec![Sx::n(1), Sx::i(*i)]),
        FactValue::Float(f) => Sx::l(vec![Sx::n(2), Sx::A(f.to_bits() as i128)]),
        FactValue::Boolean(b) => Sx::l(vec![Sx::n(3), Sx::b(*b)]),
        FactValue::Array(a) => Sx::l(vec![Sx::n(4), Sx::l(a.iter().map(enc_v).collect())]),
        FactValue::Null => Sx::l(vec![Sx::n(5)]),
    }
}
fn dec_v(s: &Sx) -> FactValue {
    match s.at(0).as_u() {
        0 => FactValue::String(s.at(1).as_s()),
        1 => FactValue::Integer(s.at(1).as_i() as i64),
        2 => FactValue::Float(f64::from_bits(s.at(1).as_i() as u64)),
        3 => FactValue::Boolean(s.at(1).as_b()),
        4 => FactValue::Array(s.at(1).as_l().iter().map(dec_v).collect()),
        _ => FactValue::Null,
    }
}
fn fld(k: i128) -> String { if k == 0 { "id".into() } else { format!("f{}", k) } }
fn dec_fact(s: &Sx) -> TypedFacts {
    let mut t = TypedFacts::new();
    for kv in s.as_l() { t.set(fld(kv.at(0).as_i()), dec_v(kv.at(1))); }
    t
}
fn fid(t: &TypedFacts) -> i64 { match t.get("id") { Some(FactValue::Integer(i)) => *i, _ => -1 } }

/// pool of values that print alike / compare alike across types
fn pool() -> Vec<FactValue> {
    vec![FactValue::Integer(5), FactValue::Float(5.0), FactValue::String("5".into()), FactValue::String("5.0".into()),
         FactValue::Float(0.0), FactValue::Float(-0.0), FactValue::Integer(0), FactValue::Float(f64::NAN),
         FactValue::Float(-f64::NAN), FactValue::String("NaN".into()), FactValue::Boolean(true), FactValue::String("true".into()),
         FactValue::Null, FactValue::String("null".into()), FactValue::Array(vec![FactValue::Integer(1)]),
         FactValue::Array(vec![FactValue::Float(-0.0)]), FactValue::Array(vec![FactValue::Float(0.0)]),
         FactValue::Array(vec![FactValue::Float(f64::NAN)]), FactValue::String("[Integer(1)]".into()),
         FactValue::Float(0.1), FactValue::Float(f64::INFINITY), FactValue::Integer(i64::MIN), FactValue::String("".into())]
}
fn rv(rng: &mut Rng, p: &[FactValue]) -> FactValue { rng.pick(p).clone() }

fn gen_fact(rng: &mut Rng, id: i64, p: &[FactValue]) -> Sx {
    let mut kv = vec![Sx::l(vec![Sx::n(0), enc_v(&FactValue::Integer(id))])];
    for k in 1..=2 { if rng.chance(4, 5) { kv.push(Sx::l(vec![Sx::n(k), enc_v(&rv(rng, p))])); } }
    Sx::l(kv)
}

pub fn gen(tier: Tier, rng: &mut Rng) -> Vec<Sx> {
    let p = pool();
    let mut v = vec![];
    // exhaustive value-pair matrix for alpha (stored value x looked-up value, with and without index, index before/after insert)
    for a in &p { for b in &p {
        let f = Sx::l(vec![Sx::l(vec![Sx::n(0), enc_v(&FactValue::Integer(1))]), Sx::l(vec![Sx::n(1), enc_v(a)])]);
        let ins = Sx::l(vec![Sx::n(0), f]); let cr = Sx::l(vec![Sx::n(1), Sx::n(1)]); let dr = Sx::l(vec![Sx::n(2), Sx::n(1)]);
        let fl = Sx::l(vec![Sx::n(3), Sx::n(1), enc_v(b)]);
        v.push(Sx::l(vec![Sx::n(0), Sx::l(vec![ins.clone(), fl.clone(), cr.clone(), fl.clone(), dr.clone(), fl.clone()])]));
        v.push(Sx::l(vec![Sx::n(0), Sx::l(vec![cr.clone(), ins.clone(), fl.clone()])]));
        // beta: add a, lookup b
        v.push(Sx::l(vec![Sx::n(1), Sx::l(vec![Sx::l(vec![Sx::n(0), Sx::l(vec![enc_v(a)]), Sx::n(0)]), Sx::l(vec![Sx::n(2), enc_v(b)])])]));
        // memo: evaluate (f1 == a) on {f1: a} then on {f1: b}, and the node with constant b on both
        let fa = Sx::l(vec![Sx::l(vec![Sx::n(1), enc_v(a)])]); let fb = Sx::l(vec![Sx::l(vec![Sx::n(1), enc_v(b)])]);
        v.push(Sx::l(vec![Sx::n(2), Sx::l(vec![Sx::l(vec![Sx::n(1), enc_v(a), fa.clone()]), Sx::l(vec![Sx::n(1), enc_v(a), fb.clone()]),
                                                  Sx::l(vec![Sx::n(1), enc_v(b), fa.clone()]), Sx::l(vec![Sx::n(1), enc_v(b), fb.clone()])])]));
        // memo: the same two values spread over two fields the other way round (a key that forgets which value belongs to which field collides)
        let fab = Sx::l(vec![Sx::l(vec![Sx::n(1), enc_v(a)]), Sx::l(vec![Sx::n(2), enc_v(b)])]);
        let fba = Sx::l(vec![Sx::l(vec![Sx::n(1), enc_v(b)]), Sx::l(vec![Sx::n(2), enc_v(a)])]);
        v.push(Sx::l(vec![Sx::n(2), Sx::l(vec![Sx::l(vec![Sx::n(1), enc_v(a), fab.clone()]), Sx::l(vec![Sx::n(1), enc_v(a), fba.clone()]),
                                                  Sx::l(vec![Sx::n(2), enc_v(a), fab.clone()]), Sx::l(vec![Sx::n(2), enc_v(a), fba.clone()])])]));
    } }
    let n = if tier == Tier::Thorough { 120000 } else { 6000 };
    for _ in 0..n {
        match rng.below(4) {
            0 => { // alpha: up to 10 ops
                let mut ops = vec![]; let mut id = 0;
                for _ in 0..rng.range(3, 10) {
                    ops.push(match rng.below(8) {
                        0..=2 => { id += 1; Sx::l(vec![Sx::n(0), gen_fact(rng, id, &p)]) }
                        3 => Sx::l(vec![Sx::n(1), Sx::n(rng.range(1, 2))]),
                        4 => Sx::l(vec![Sx::n(2), Sx::n(rng.range(1, 2))]),
                        _ => Sx::l(vec![Sx::n(3), Sx::n(rng.range(1, 2)), enc_v(&rv(rng, &p))]),
                    });
                }
                v.push(Sx::l(vec![Sx::n(0), Sx::l(ops)]));
            }
            1 if rng.chance(1, 2) => { // beta, dense: two key values, fact indices 0..3; removes name ANY (key, index) pair - present, already
                // removed or never added - and every lookup is of one of the two keys (a remove that names no live entry changes nothing)
                let k1 = rv(rng, &p); let k2 = rv(rng, &p);
                let mut ops = vec![];
                for _ in 0..rng.range(3, 9) {
                    let k = if rng.chance(1, 2) { &k1 } else { &k2 };
                    ops.push(match rng.below(5) {
                        0 | 1 => Sx::l(vec![Sx::n(0), Sx::opt(Some(enc_v(k))), Sx::i(rng.below(4) as i64)]),
                        2 | 3 => Sx::l(vec![Sx::n(1), Sx::opt(Some(enc_v(k))), Sx::i(rng.below(4) as i64)]),
                        _ => Sx::l(vec![Sx::n(2), enc_v(k)]),
                    });
                }
                ops.push(Sx::l(vec![Sx::n(2), enc_v(&k1)])); ops.push(Sx::l(vec![Sx::n(2), enc_v(&k2)]));
                v.push(Sx::l(vec![Sx::n(1), Sx::l(ops)]));
            }
            1 => { // beta: add / remove (same fact as added) / lookup
                let mut ops = vec![]; let mut added: Vec<(Option<FactValue>, i64)> = vec![];
                for _ in 0..rng.range(3, 10) {
                    let r = rng.below(6);
                    if r < 3 || added.is_empty() {
                        let val = if rng.chance(1, 8) { None } else { Some(rv(rng, &p)) }; let i = added.len() as i64 + 10 * (rng.below(2) as i64);
                        ops.push(Sx::l(vec![Sx::n(0), Sx::opt(val.as_ref().map(enc_v)), Sx::i(i)])); added.push((val, i));
                    } else if r == 3 { let (val, i) = rng.pick(&added).clone(); ops.push(Sx::l(vec![Sx::n(1), Sx::opt(val.as_ref().map(enc_v)), Sx::i(i)])); }
                    else { ops.push(Sx::l(vec![Sx::n(2), enc_v(&rv(rng, &p))])); }
                }
                v.push(Sx::l(vec![Sx::n(1), Sx::l(ops)]));
            }
            2 => { // memo: alternating fact sets that print alike but differ in type
                let mut calls = vec![];
                for _ in 0..rng.range(2, 10) {
                    let mut f = vec![]; for k in 1..=2 { if rng.chance(3, 4) { f.push(Sx::l(vec![Sx::n(k), enc_v(&rv(rng, &p))])); } }
                    calls.push(Sx::l(vec![Sx::n(rng.range(1, 2)), enc_v(&rv(rng, &p)), Sx::l(f)]));
                }
                v.push(Sx::l(vec![Sx::n(2), Sx::l(calls)]));
            }
            _ => { // conclusion index
                let fields = ["User.IsVIP", "User.Points", "Order.Total", "Order.Status", "flag", "Us.x", "User.Is"];
                let names = ["R1", "R2", "R3", "R4"];
                let mut ops = vec![];
                for _ in 0..rng.range(3, 10) {
                    ops.push(match rng.below(6) {
                        0..=2 => { let k = rng.range(0, 2) as usize; let fs: Vec<Sx> = (0..k).map(|_| Sx::s(*rng.pick(&fields))).collect();
                                   Sx::l(vec![Sx::n(0), Sx::s(*rng.pick(&names)), Sx::b(rng.chance(4, 5)), Sx::l(fs)]) }
                        3 => Sx::l(vec![Sx::n(1), Sx::s(*rng.pick(&names))]),
                        _ => { let f = *rng.pick(&fields); let op = *rng.pick(&[" == ", " != ", " >= ", " <= ", " > ", " < ", "==", " contains ", ""]);
                               // literals that contain operator characters: the field is what stands before the FIRST operator of the goal
                               let lit = if op.is_empty() { "" } else { *rng.pick(&["true", "5", "\"x\"", "1.5", "'a==b'", "\"<\"", "\">= 1\"", "'x != y'", "\"a contains b\""]) };
                               let g = format!("{}{}{}", f, op, lit);
                               Sx::l(vec![Sx::n(2), Sx::s(f), Sx::s(&g)]) }
                    });
                }
                v.push(Sx::l(vec![Sx::n(3), Sx::l(ops)]));
            }
        }
    }
    v
}

pub fn run(case: &Sx) -> (Sx, String) {
    let mut obs = vec![];
    match case.at(0).as_u() {
        0 => {
            let mut a = AlphaMemoryIndex::new(); let mut indexed_filters = 0;
            for o in case.at(1).as_l() {
                obs.push(match o.at(0).as_u() {
                    0 => { a.insert(dec_fact(o.at(1))); Sx::l(vec![]) }
                    1 => { a.create_index(fld(o.at(1).as_i())); Sx::l(vec![]) }
                    2 => { a.drop_index(&fld(o.at(1).as_i())); Sx::l(vec![]) }
                    _ => { let f = fld(o.at(1).as_i()); if a.indexed_fields().iter().any(|x| **x == f) { indexed_filters += 1; }
                           Sx::l(a.filter(&f, &dec_v(o.at(2))).iter().map(|t| Sx::i(fid(t))).collect()) }
                });
            }
            (Sx::l(obs), if indexed_filters > 0 { "alpha indexed".into() } else { "alpha scan".into() })
        }
        1 => {
            let mut b = BetaMemoryIndex::new("k".to_string());
            for o in case.at(1).as_l() {
                let mk = |ov: &Sx| { let mut t = TypedFacts::new(); if let Some(v) = ov.as_l().first() { t.set("k", dec_v(v)); } t };
                obs.push(match o.at(0).as_u() {
                    0 => { b.add(&mk(o.at(1)), o.at(2).as_i() as usize); Sx::l(vec![]) }
                    1 => { b.remove(&mk(o.at(1)), o.at(2).as_i() as usize); Sx::l(vec![]) }
                    _ => Sx::l(b.lookup(&format!("{:?}", dec_v(o.at(1)))).iter().map(|i| Sx::us(*i)).collect()),
                });
            }
            (Sx::l(obs), "beta".into())
        }
        2 => {
            let mut m = MemoizedEvaluator::new();
            for c in case.at(1).as_l() {
                let field = fld(c.at(0).as_i()); let constant = dec_v(c.at(1)); let facts = dec_fact(c.at(2));
                let node = ReteUlNode::UlAlpha(AlphaNode { field: field.clone(), operator: "==".into(), value: format!("{:?}", constant) });
                let r = m.evaluate(&node, &facts, |_, f| f.get(&field) == Some(&constant));
                obs.push(Sx::b(r));
            }
            (Sx::l(obs), if m.stats().hits > 0 { "memo hit".into() } else { "memo".into() })
        }
        _ => {
            let mut ci = ConclusionIndex::new(); let mut finds = 0;
            for o in case.at(1).as_l() {
                obs.push(match o.at(0).as_u() {
                    0 => {
                        let acts: Vec<ActionType> = o.at(3).as_l().iter().map(|f| ActionType::Set { field: f.as_s(), value: Value::Boolean(true) }).collect();
                        let mut r = Rule::new(o.at(1).as_s(), ConditionGroup::Single(Condition::new("d".into(), Operator::Equal, Value::Boolean(true))), acts);
                        r.enabled = o.at(2).as_b();
                        ci.add_rule(&r); Sx::l(vec![])
                    }
                    1 => { ci.remove_rule(&o.at(1).as_s()); Sx::l(vec![]) }
                    _ => { finds += 1; let mut c: Vec<String> = ci.find_candidates(&o.at(2).as_s()).into_iter().collect(); c.sort(); Sx::l(c.iter().map(|s| Sx::s(s)).collect()) }
                });
            }
            (Sx::l(obs), if finds > 0 { "cidx".into() } else { "trivial".into() })
        }
    }
}
