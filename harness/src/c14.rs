//! C14 — StreamJoinNode inner time-window join over every interleaving.
//! case = (kind w (op ...)); op = (0 id ts key attr) | (1 id ts key attr) | (2 z); key = () | (k)
use crate::rng::Rng;
use crate::sx::Sx;
use crate::Tier;
use rust_rule_engine::rete::stream_join_node::{JoinStrategy, JoinType, StreamJoinNode};
use rust_rule_engine::streaming::event::StreamEvent;
use rust_rule_engine::types::Value;
use std::collections::HashMap;
use std::time::Duration;

#[derive(Clone)]
struct Ev { id: i64, ts: i64, key: Option<i64>, attr: i64 }
fn ev_sx(side: u64, e: &Ev) -> Sx {
    Sx::l(vec![Sx::n(side), Sx::i(e.id), Sx::i(e.ts), match e.key { None => Sx::l(vec![]), Some(k) => Sx::l(vec![Sx::i(k)]) }, Sx::i(e.attr)])
}

fn merges(l: &[Ev], r: &[Ev], cur: &mut Vec<Sx>, out: &mut Vec<Vec<Sx>>) {
    if l.is_empty() && r.is_empty() { out.push(cur.clone()); return; }
    if !l.is_empty() { cur.push(ev_sx(0, &l[0])); merges(&l[1..], r, cur, out); cur.pop(); }
    if !r.is_empty() { cur.push(ev_sx(1, &r[0])); merges(l, &r[1..], cur, out); cur.pop(); }
}

fn rand_ev(rng: &mut Rng, id: i64, nkeys: u64, tdom: u64) -> Ev {
    Ev { id, ts: rng.below(tdom) as i64, key: if rng.chance(1, 10) { None } else { Some(rng.below(nkeys) as i64) }, attr: rng.below(3) as i64 }
}

pub fn gen(tier: Tier, rng: &mut Rng) -> Vec<Sx> {
    let mut v = vec![];
    let nsets = if tier == Tier::Thorough { 4000 } else { 1500 };
    // ALL merges of the two arrival orders (up to 3+3 quick, 4+4 thorough), with and without watermark advances
    for s in 0..nsets {
        let maxn = if tier == Tier::Thorough { 4 } else { 3 };
        let nl = rng.range(1, maxn) as usize; let nr = rng.range(1, maxn) as usize;
        let nkeys = rng.range(1, 3); let tdom = *rng.pick(&[4u64, 8, 12]);
        let l: Vec<Ev> = (0..nl).map(|i| rand_ev(rng, i as i64, nkeys, tdom)).collect();
        let r: Vec<Ev> = (0..nr).map(|i| rand_ev(rng, 100 + i as i64, nkeys, tdom)).collect();
        let kind = rng.below(3); let w = *rng.pick(&[0u64, 1, 2, 3, 5]);
        let mut ms = vec![]; merges(&l, &r, &mut vec![], &mut ms);
        for (mi, m) in ms.iter().enumerate() {
            v.push(Sx::l(vec![Sx::n(kind), Sx::n(w), Sx::l(m.clone())]));
            // variant with watermark updates between arrivals: non-evicting (small) or evicting (large)
            if (mi + s) % 3 == 0 {
                let mut m2 = vec![];
                for o in m { m2.push(o.clone()); if rng.chance(1, 2) {
                    let z = if rng.chance(2, 3) { rng.below(w + 1) as i64 } else { rng.below(tdom + w + 4) as i64 };
                    m2.push(Sx::l(vec![Sx::n(2), Sx::i(z)])); } }
                v.push(Sx::l(vec![Sx::n(kind), Sx::n(w), Sx::l(m2)]));
            }
        }
    }
    gen_mgr(tier, rng, &mut v);
    v
}

fn mk(o: &Sx) -> StreamEvent {
    let mut data = HashMap::new();
    if let Some(k) = o.at(3).as_l().first() { data.insert("k".to_string(), Value::Integer(k.as_i() as i64)); }
    data.insert("a".to_string(), Value::Integer(o.at(4).as_i() as i64));
    let mut e = StreamEvent::with_timestamp("t", data, "h", o.at(2).as_i() as u64);
    e.id = o.at(1).as_i().to_string();
    e
}
fn attr(e: &StreamEvent) -> i64 { match e.data.get("a") { Some(Value::Integer(i)) => *i, _ => 0 } }

/// StreamJoinManager: case = (9 (mop ...)); mop = (0 id l r w kind) register | (1 id) unregister | (2 stream id ts key attr) event | (3 stream z) watermark
fn run_mgr(case: &Sx) -> (Sx, String) {
    use rust_rule_engine::streaming::join_manager::StreamJoinManager;
    use std::sync::{Arc, Mutex};
    let keyf = || -> Box<dyn Fn(&StreamEvent) -> Option<String> + Send + Sync> {
        Box::new(|e: &StreamEvent| match e.data.get("k") { Some(Value::Integer(i)) => Some(i.to_string()), _ => None }) };
    let mut mgr = StreamJoinManager::new();
    let sink: Arc<Mutex<Vec<(i64, (i64, i64))>>> = Arc::new(Mutex::new(vec![]));
    let mut obs = vec![]; let mut total = 0;
    for o in case.at(1).as_l() {
        sink.lock().unwrap().clear();
        match o.at(0).as_u() {
            0 => {
                let id = o.at(1).as_i() as i64;
                let cond: Box<dyn Fn(&StreamEvent, &StreamEvent) -> bool + Send + Sync> = match o.at(5).as_u() {
                    1 => Box::new(|l, r| attr(l) <= attr(r)), 2 => Box::new(|l, r| attr(l) != attr(r)), _ => Box::new(|_, _| true) };
                let node = StreamJoinNode::new(format!("s{}", o.at(2).as_i()), format!("s{}", o.at(3).as_i()), JoinType::Inner,
                    JoinStrategy::TimeWindow { duration: Duration::from_secs(o.at(4).as_u()) }, keyf(), keyf(), cond);
                let s2 = sink.clone();
                mgr.register_join(format!("j{}", id), node, Box::new(move |j| {
                    let p = (j.left.as_ref().map(|e| e.id.parse::<i64>().unwrap()).unwrap_or(-1), j.right.as_ref().map(|e| e.id.parse::<i64>().unwrap()).unwrap_or(-1));
                    s2.lock().unwrap().push((id, p)); }));
            }
            1 => mgr.unregister_join(&format!("j{}", o.at(1).as_i())),
            2 => { let mut data = HashMap::new();
                   if let Some(k) = o.at(4).as_l().first() { data.insert("k".to_string(), Value::Integer(k.as_i() as i64)); }
                   data.insert("a".to_string(), Value::Integer(o.at(5).as_i() as i64));
                   let mut e = StreamEvent::with_timestamp("t", data, &format!("s{}", o.at(1).as_i()), o.at(3).as_i() as u64);
                   e.id = o.at(2).as_i().to_string();
                   mgr.process_event(e); }
            _ => mgr.update_watermark(&format!("s{}", o.at(1).as_i()), o.at(2).as_i() as i64),
        }
        // deliveries in order, consecutive deliveries of one join grouped (pairs sorted inside a group)
        let got = sink.lock().unwrap().clone();
        let mut groups: Vec<(i64, Vec<(i64, i64)>)> = vec![];
        for (id, p) in got { match groups.last_mut() { Some(g) if g.0 == id => g.1.push(p), _ => groups.push((id, vec![p])) } }
        for g in groups.iter_mut() { g.1.sort(); total += g.1.len(); }
        obs.push(Sx::l(groups.iter().map(|g| Sx::l(vec![Sx::i(g.0), Sx::l(g.1.iter().map(|p| Sx::l(vec![Sx::i(p.0), Sx::i(p.1)])).collect())])).collect()));
    }
    (Sx::l(obs), if total == 0 { "manager trivial".into() } else { format!("manager pairs{}", total.min(4)) })
}

/// manager histories: 1..3 joins over 2..4 streams (two different streams each; a stream may feed several joins, on either side), then traffic on
/// all streams incl. one nobody consumes, watermarks, sometimes an unregistration and a late registration in the middle
fn gen_mgr(tier: Tier, rng: &mut Rng, v: &mut Vec<Sx>) {
    let n = if tier == Tier::Thorough { 20000 } else { 2500 };
    for _ in 0..n {
        let ns = rng.range(2, 3) as i64; let nj = rng.range(1, 3) as i64;
        let mut ops = vec![]; let mut live: Vec<i64> = vec![];
        let reg = |rng: &mut Rng, id: i64| -> Sx { let l = rng.below(ns as u64) as i64; let mut r = rng.below(ns as u64) as i64; if r == l { r = (l + 1) % ns; }
            Sx::l(vec![Sx::n(0), Sx::i(id), Sx::i(l), Sx::i(r), Sx::n(*rng.pick(&[1u64, 2, 3, 5, 8])), Sx::n(*rng.pick(&[0u64, 0, 1, 2]))]) };
        for id in 0..nj { ops.push(reg(rng, id)); live.push(id); }
        let mut next = nj; let mut eid = 0i64;
        for _ in 0..rng.range(5, 16) {
            match rng.below(14) {
                0 if !live.is_empty() => { let i = rng.below(live.len() as u64) as usize; ops.push(Sx::l(vec![Sx::n(1), Sx::i(live.remove(i))])); }
                1 => { ops.push(reg(rng, next)); live.push(next); next += 1; }
                2 | 3 => { let z = rng.below(14) as i64; ops.push(Sx::l(vec![Sx::n(3), Sx::i(rng.below(ns as u64 + 1) as i64), Sx::i(z)])); }
                _ => { eid += 1; let key = if rng.chance(1, 12) { Sx::l(vec![]) } else { Sx::l(vec![Sx::i(if rng.chance(3, 4) { 0 } else { 1 })]) };
                       ops.push(Sx::l(vec![Sx::n(2), Sx::i(rng.below(ns as u64 + 1) as i64), Sx::i(eid), Sx::i(rng.below(6) as i64), key, Sx::i(rng.below(3) as i64)])); }
            }
        }
        v.push(Sx::l(vec![Sx::n(9), Sx::l(ops)]));
    }
}

pub fn run(case: &Sx) -> (Sx, String) {
    if case.at(0).as_u() == 9 { return run_mgr(case); }
    let kind = case.at(0).as_u(); let w = case.at(1).as_u();
    let keyf = || -> Box<dyn Fn(&StreamEvent) -> Option<String> + Send + Sync> {
        Box::new(|e: &StreamEvent| match e.data.get("k") { Some(Value::Integer(i)) => Some(i.to_string()), _ => None }) };
    let cond: Box<dyn Fn(&StreamEvent, &StreamEvent) -> bool + Send + Sync> = match kind {
        1 => Box::new(|l, r| attr(l) <= attr(r)),
        2 => Box::new(|l, r| attr(l) != attr(r)),
        _ => Box::new(|_, _| true),
    };
    let mut node = StreamJoinNode::new("L".into(), "R".into(), JoinType::Inner,
        JoinStrategy::TimeWindow { duration: Duration::from_secs(w) }, keyf(), keyf(), cond);
    let mut obs = vec![]; let mut total = 0; let mut nwm = 0;
    for o in case.at(2).as_l() {
        let out = match o.at(0).as_u() {
            0 => node.process_left(mk(o)),
            1 => node.process_right(mk(o)),
            _ => { nwm += 1; node.update_watermark(o.at(1).as_i() as i64) }
        };
        let mut pairs: Vec<(i64, i64)> = out.iter().map(|j| (
            j.left.as_ref().map(|e| e.id.parse::<i64>().unwrap()).unwrap_or(-1),
            j.right.as_ref().map(|e| e.id.parse::<i64>().unwrap()).unwrap_or(-1))).collect();
        pairs.sort();
        total += pairs.len();
        obs.push(Sx::l(pairs.iter().map(|p| Sx::l(vec![Sx::i(p.0), Sx::i(p.1)])).collect()));
    }
    (Sx::l(obs), if total == 0 { "trivial".into() } else { format!("pairs{}{}", total.min(4), if nwm > 0 { " wm" } else { "" }) })
}
