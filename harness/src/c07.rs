//! C07 — AdvancedAgenda histories (tag 0) and the fire_all loops of the three RETE engines (tag 1).
use crate::rng::Rng;
use crate::sx::Sx;
use crate::Tier;
use rust_rule_engine::rete::agenda::{Activation, AdvancedAgenda};
use rust_rule_engine::rete::facts::TypedFacts;
use rust_rule_engine::rete::network::{ReteUlEngine, ReteUlNode, TypedReteUlEngine};
use rust_rule_engine::rete::propagation::IncrementalEngine;
use rust_rule_engine::rete::{AlphaNode, TypedReteUlRule};
use std::sync::Arc;

fn gname(g: i128) -> String { if g == 0 { "MAIN".into() } else { format!("g{}", g) } }

pub fn gen(tier: Tier, rng: &mut Rng) -> Vec<Sx> {
    let mut v = vec![];
    let n = if tier == Tier::Thorough { 300000 } else { 8000 };
    for _ in 0..n {
        let len = rng.range(3, 14) as usize;
        let mut ops = vec![]; let mut id = 0i64;
        for _ in 0..len {
            ops.push(match rng.below(10) {
                0..=4 => { id += 1;
                    let sal = *rng.pick(&[0i64, 0, 1, 1, 5, -3, i32::MAX as i64, i32::MIN as i64]);
                    let ag = if rng.chance(1, 4) { Sx::l(vec![Sx::i(rng.below(2) as i64 + 1)]) } else { Sx::l(vec![]) };
                    Sx::l(vec![Sx::n(0), Sx::i(id), Sx::i(rng.below(4) as i64), Sx::i(sal), ag, Sx::i(rng.below(3) as i64),
                               Sx::b(rng.chance(1, 2)), Sx::b(rng.chance(1, 6)), Sx::b(rng.chance(1, 8))]) }
                5..=6 => Sx::l(vec![Sx::n(1)]),
                7 => Sx::l(vec![Sx::n(2)]),
                8 => Sx::l(vec![Sx::n(3), Sx::i(rng.below(3) as i64)]),
                _ => if rng.chance(1, 3) { Sx::l(vec![Sx::n(4)]) } else { Sx::l(vec![Sx::n(1)]) },
            });
            // a Next is usually followed by a Mark (the engines always do)
            if ops.last().unwrap().at(0).as_u() == 1 && rng.chance(3, 4) { ops.push(Sx::l(vec![Sx::n(2)])); }
        }
        // a third of the histories: the activations are CREATED in another order than they are added (explicit creation stamps,
        // a permutation of the ids); "earlier-created first among equals" is about creation, not insertion
        if rng.chance(1, 3) {
            let adds: Vec<usize> = (0..ops.len()).filter(|i| ops[*i].at(0).as_u() == 0).collect();
            let mut stamps: Vec<i64> = adds.iter().map(|i| ops[*i].at(1).as_i() as i64).collect();
            rng.shuffle(&mut stamps);
            for (k, i) in adds.iter().enumerate() { let mut l = ops[*i].as_l().to_vec(); l.push(Sx::i(stamps[k])); ops[*i] = Sx::l(l); }
        }
        v.push(Sx::l(vec![Sx::n(0), Sx::l(ops)]));
    }
    // fire_all of the three engines: rule sets incl. always-true rules without no-loop, extreme priorities
    let nl = if tier == Tier::Thorough { 3000 } else { 240 };
    for i in 0..nl {
        let k = rng.range(1, 5);
        let mut prios: Vec<i64> = vec![i32::MIN as i64, -7, 0, 3, 10, i32::MAX as i64];
        rng.shuffle(&mut prios);
        // engine 3 = the incremental engine again, every action also issuing ActivateAgendaGroup (the focus moves to an empty
        // group and falls back to MAIN at the next pop: the firings must be those of engine 2, and fire_all must still return)
        let engine = (i % 4) as u64;
        let rules: Vec<Sx> = (0..k).map(|j| {
            // the incremental engine orders equal saliences by creation time, which depends on HashSet order: use distinct priorities there
            let p = if engine >= 2 { prios[j as usize] } else { *rng.pick(&[0i64, 0, 5, i32::MIN as i64, i32::MAX as i64]) };
            Sx::l(vec![Sx::i(j as i64), Sx::i(p), Sx::b(rng.chance(1, 2)), Sx::b(rng.chance(3, 4))])
        }).collect();
        v.push(Sx::l(vec![Sx::n(1), Sx::n(engine), Sx::l(rules)]));
    }
    v
}

fn node(t: bool) -> ReteUlNode {
    ReteUlNode::UlAlpha(AlphaNode { field: "T.a".into(), operator: "==".into(), value: if t { "1".into() } else { "2".into() } })
}

fn summarize(rules: &Sx, fired: &[String]) -> Sx {
    let names: Vec<i64> = fired.iter().map(|s| s[1..].parse::<i64>().unwrap()).collect();
    Sx::l(vec![Sx::us(names.len()),
        Sx::l(rules.as_l().iter().map(|r| Sx::us(names.iter().filter(|n| **n == r.at(0).as_i() as i64).count())).collect()),
        Sx::l(names.iter().take(12).map(|n| Sx::i(*n)).collect())])
}

/// runs in a child process (see main.rs `one`): may hang if a loop has no bound
pub fn run_loop_direct(case: &Sx) -> (Sx, String) {
    let rules = case.at(2);
    let fired: Vec<String> = match case.at(1).as_u() {
        0 => {
            let mut e = ReteUlEngine::new();
            e.set_fact("T.a".into(), "1".into());
            for r in rules.as_l() { e.add_rule_with_action(format!("r{}", r.at(0).as_i()), node(r.at(3).as_b()), r.at(1).as_i() as i32, r.at(2).as_b(), |_| {}); }
            e.fire_all()
        }
        1 => {
            let mut e = TypedReteUlEngine::new();
            e.set_fact("T.a", 1i64);
            for r in rules.as_l() { e.add_rule_with_action(format!("r{}", r.at(0).as_i()), node(r.at(3).as_b()), r.at(1).as_i() as i32, r.at(2).as_b(), |_, _| {}); }
            e.fire_all()
        }
        eng => {
            let mut e = IncrementalEngine::new();
            let focus_action = eng == 3;
            for r in rules.as_l() {
                e.add_rule(TypedReteUlRule { name: format!("r{}", r.at(0).as_i()), node: node(r.at(3).as_b()), priority: r.at(1).as_i() as i32,
                    no_loop: r.at(2).as_b(), action: Arc::new(move |_, results| { if focus_action { results.add(rust_rule_engine::rete::ActionResult::ActivateAgendaGroup("phase2".to_string())); } }) }, vec!["T".to_string()]);
            }
            let mut f = TypedFacts::new(); f.set("a", 1i64);
            e.insert("T".to_string(), f);
            e.fire_all()
        }
    };
    let total = fired.len();
    (summarize(rules, &fired), format!("loop e{} {}", case.at(1).as_u(), if total > 50 { "bounded-by-limit" } else if total > 0 { "fires" } else { "quiet" }))
}

pub fn run(case: &Sx) -> (Sx, String) {
    if case.at(0).as_u() == 1 { return crate::run_in_child("C07", case, 10); }
    let mut ag = AdvancedAgenda::new();
    let mut last: Option<Activation> = None;
    let mut obs = vec![]; let (mut nnext, mut nsome) = (0, 0);
    // create the activations of the case in the order of their creation stamps (default: the id, i.e. the order of the adds),
    // each at a strictly later Instant than the one before; the add ops insert them where the history says
    let stamp = |o: &Sx| -> i128 { if o.as_l().len() > 9 { o.at(9).as_i() } else { o.at(1).as_i() } };
    let mut adds: Vec<&Sx> = case.at(1).as_l().iter().filter(|o| o.at(0).as_u() == 0).collect();
    adds.sort_by_key(|o| stamp(o));
    let mut made: std::collections::HashMap<i128, Activation> = std::collections::HashMap::new();
    for o in adds {
        let t0 = std::time::Instant::now(); while std::time::Instant::now() == t0 {}
        let mut a = Activation::new(format!("n{}", o.at(2).as_i()), o.at(3).as_i() as i32)
            .with_agenda_group(gname(o.at(5).as_i())).with_no_loop(o.at(6).as_b())
            .with_lock_on_active(o.at(7).as_b()).with_auto_focus(o.at(8).as_b())
            .with_condition_count(o.at(1).as_us());          // carries the op id back out
        if let Some(g) = o.at(4).as_l().first() { a = a.with_activation_group(format!("ag{}", g.as_i())); }
        made.insert(o.at(1).as_i(), a);
    }
    for o in case.at(1).as_l() {
        match o.at(0).as_u() {
            0 => {
                if let Some(a) = made.remove(&o.at(1).as_i()) { ag.add_activation(a); }
                obs.push(Sx::l(vec![focus_of(&ag)]));
            }
            1 => { nnext += 1; last = ag.get_next_activation(); if last.is_some() { nsome += 1; }
                   obs.push(Sx::l(vec![focus_of(&ag), Sx::opt(last.as_ref().map(|a| Sx::us(a.condition_count)))])); }
            2 => { if let Some(a) = &last { ag.mark_rule_fired(a); } obs.push(Sx::l(vec![focus_of(&ag)])); }
            3 => { ag.set_focus(gname(o.at(1).as_i())); obs.push(Sx::l(vec![focus_of(&ag)])); }
            _ => { ag.reset_fired_flags(); obs.push(Sx::l(vec![focus_of(&ag)])); }
        }
    }
    (Sx::l(obs), if nsome >= 2 { "agenda multi".into() } else if nnext > 0 { "agenda".into() } else { "trivial".into() })
}

fn focus_of(ag: &AdvancedAgenda) -> Sx {
    let f = ag.get_focus(); Sx::i(if f == "MAIN" { 0 } else { f[1..].parse::<i64>().unwrap() })
}
