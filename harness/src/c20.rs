//! C20 — StateStore on the file backend under an injected clock, with crash injection (tag 0), and a
//! truncation sweep over real checkpoint files (tag 1).
//! op = (0 k v) put | (1 k v ttl) | (2 k v) update | (3 k) delete | (4 dt) | (5) checkpoint | (6 step pfx) crash | (7 j) restore
use crate::rng::Rng;
use crate::sx::Sx;
use crate::Tier;
use rust_rule_engine::streaming::state::{StateBackend, StateConfig, StateStore};
use rust_rule_engine::types::Value;
use rust_rule_engine::verif_hooks as hooks;
use std::collections::{BTreeSet, HashMap};
use std::path::{Path, PathBuf};
use std::sync::atomic::{AtomicU64, Ordering};
use std::time::Duration;

static DIRSEQ: AtomicU64 = AtomicU64::new(0);
fn scratch() -> PathBuf {
    let base = Path::new(env!("CARGO_MANIFEST_DIR")).join("target").join("c20-scratch");
    let p = base.join(format!("{}-{}", std::process::id(), DIRSEQ.fetch_add(1, Ordering::SeqCst)));
    let _ = std::fs::remove_dir_all(&p);
    std::fs::create_dir_all(&p).unwrap();
    p
}
fn key(k: u64) -> String { format!("k{}", k) }
fn val(z: i64) -> Value { if z >= 0 { Value::Integer(z) } else { Value::String(format!("s{}", -z)) } }
fn unval(v: &Value) -> i64 { match v { Value::Integer(z) => *z, Value::String(s) => -(s[1..].parse::<i64>().unwrap()), _ => 99999 } }

fn rand_op(rng: &mut Rng, nissued: &mut u64, crashy: bool) -> Sx {
    let k = rng.below(3); let v = rng.below(7) as i64 - 2;
    match rng.below(if crashy { 14 } else { 12 }) {
        0..=2 => Sx::l(vec![Sx::n(0), Sx::n(k), Sx::i(v)]),
        3 => Sx::l(vec![Sx::n(1), Sx::n(k), Sx::i(v), Sx::n(*rng.pick(&[0u64, 1, 2, 5]))]),
        4 => Sx::l(vec![Sx::n(2), Sx::n(k), Sx::i(v)]),
        5 => Sx::l(vec![Sx::n(3), Sx::n(k)]),
        6..=7 => Sx::l(vec![Sx::n(4), Sx::n(*rng.pick(&[0u64, 0, 1, 2, 3, 10]))]),
        8..=9 => { *nissued += 1; Sx::l(vec![Sx::n(5)]) }
        10..=11 => Sx::l(vec![Sx::n(7), Sx::n(if *nissued == 0 { 0 } else { rng.below(*nissued + 1) })]),
        _ => { *nissued += 1; let step = rng.range(1, 5); Sx::l(vec![Sx::n(6), Sx::n(step), Sx::n(if step == 3 { rng.below(3) } else { 0 })]) }
    }
}

pub fn gen(tier: Tier, rng: &mut Rng) -> Vec<Sx> {
    let mut v = vec![];
    let n = if tier == Tier::Thorough { 30000 } else { 1500 };
    for i in 0..n {
        let len = rng.range(3, 10) as usize; let mut nissued = 0;
        let crashy = i % 3 == 0;
        let mut ops: Vec<Sx> = vec![];
        for _ in 0..len {
            let o = rand_op(rng, &mut nissued, crashy);
            let is_crash = o.at(0).as_u() == 6;
            ops.push(o);
            // an interrupted process needs time to come back: the clock moves on after a crash
            if is_crash { ops.push(Sx::l(vec![Sx::n(4), Sx::n(rng.range(1, 3))])); }
        }
        v.push(Sx::l(vec![Sx::n(0), Sx::n(*rng.pick(&[1u64, 2, 3, 10])), Sx::l(ops)]));
    }
    // every crash point after a fixed prefix, followed by restore of the interrupted and of the earlier checkpoint
    for step in 1..=5u64 { for pfx in 0..3u64 { if step != 3 && pfx > 0 { continue; }
        for mx in [1u64, 2, 10] {
            v.push(Sx::l(vec![Sx::n(0), Sx::n(mx), Sx::l(vec![
                Sx::l(vec![Sx::n(0), Sx::n(0), Sx::i(1)]), Sx::l(vec![Sx::n(5)]), Sx::l(vec![Sx::n(0), Sx::n(1), Sx::i(-2)]),
                Sx::l(vec![Sx::n(6), Sx::n(step), Sx::n(pfx)]), Sx::l(vec![Sx::n(4), Sx::n(1)]), Sx::l(vec![Sx::n(0), Sx::n(2), Sx::i(3)]),
                Sx::l(vec![Sx::n(7), Sx::n(1)]), Sx::l(vec![Sx::n(7), Sx::n(0)]), Sx::l(vec![Sx::n(5)]), Sx::l(vec![Sx::n(7), Sx::n(2)])])]));
        } } }
    // truncation sweep on real files: (1 ((k v) ...))
    let nt = if tier == Tier::Thorough { 400 } else { 40 };
    for _ in 0..nt {
        let kv: Vec<Sx> = (0..rng.below(4)).map(|k| Sx::l(vec![Sx::n(k), Sx::i(rng.below(2000) as i64 - 1000)])).collect();
        v.push(Sx::l(vec![Sx::n(1), Sx::l(kv)]));
    }
    v
}

fn file_status(dir: &Path, id: &str) -> Sx {
    let d = dir.join(id);
    if !d.is_dir() { return Sx::l(vec![Sx::n(0)]); }
    let f = d.join("state.json");
    if !f.exists() { return Sx::l(vec![Sx::n(1)]); }
    match std::fs::read_to_string(&f).ok().and_then(|t| serde_json::from_str::<HashMap<String, Value>>(&t).ok()) {
        Some(m) => {
            let mut kv: Vec<(u64, i64)> = m.iter().map(|(k, v)| (k[1..].parse::<u64>().unwrap(), unval(v))).collect();
            kv.sort();
            Sx::l(vec![Sx::n(2), Sx::l(kv.iter().map(|(k, v)| Sx::l(vec![Sx::n(*k), Sx::i(*v)])).collect())])
        }
        None => Sx::l(vec![Sx::n(3)]),
    }
}
fn dirs(dir: &Path) -> BTreeSet<String> {
    std::fs::read_dir(dir).map(|r| r.filter_map(|e| e.ok()).map(|e| e.file_name().to_string_lossy().to_string()).collect()).unwrap_or_default()
}

pub fn run(case: &Sx) -> (Sx, String) {
    let dir = scratch();
    let r = if case.at(0).as_u() == 0 { run_ops(case, &dir) } else { run_trunc(case, &dir) };
    hooks::set_clock_ms(None); hooks::set_crash(-1, 0);
    let _ = std::fs::remove_dir_all(&dir);
    r
}

fn run_ops(case: &Sx, dir: &Path) -> (Sx, String) {
    let mut clock: u64 = 1000;
    hooks::set_clock_ms(Some(clock));
    let mut st = StateStore::with_config(StateConfig { backend: StateBackend::File { path: dir.to_path_buf() },
        max_checkpoints: case.at(1).as_us(), ..Default::default() });
    let mut issued: Vec<String> = vec![];
    let mut obs = vec![];
    let (mut nck, mut ncrash, mut nrest, mut samems) = (0, 0, 0, false);
    let mut last_ck_ms = 0u64;
    for o in case.at(2).as_l() {
        let res = match o.at(0).as_u() {
            0 => st.put(key(o.at(1).as_u()), val(o.at(2).as_i() as i64)).is_ok(),
            1 => st.put_with_ttl(key(o.at(1).as_u()), val(o.at(2).as_i() as i64), Duration::from_millis(o.at(3).as_u())).is_ok(),
            2 => st.update(&key(o.at(1).as_u()), val(o.at(2).as_i() as i64)).is_ok(),
            3 => st.delete(&key(o.at(1).as_u())).is_ok(),
            4 => { clock += o.at(1).as_u(); hooks::set_clock_ms(Some(clock)); true }
            5 | 6 => {
                if clock == last_ck_ms { samems = true; } last_ck_ms = clock;
                let before = dirs(dir);
                if o.at(0).as_u() == 6 { ncrash += 1; hooks::set_crash(o.at(1).as_i() as i64, match o.at(2).as_u() { 0 => 0, 1 => 1, _ => u64::MAX }); } else { nck += 1; }
                let r = st.checkpoint("c");
                hooks::set_crash(-1, 0);
                let after = dirs(dir);
                let newd: Vec<&String> = after.difference(&before).collect();
                let id = match (&r, newd.first()) { (Ok(id), _) => id.clone(), (Err(_), Some(d)) => (*d).clone(), (Err(_), None) => "?".to_string() };
                issued.push(id);
                r.is_ok()
            }
            _ => { nrest += 1; let j = o.at(1).as_us(); if j < issued.len() { st.restore(&issued[j]).is_ok() } else { st.restore("checkpoint_nonexistent").is_ok() } }
        };
        let gets: Vec<Sx> = (0..3).map(|k| Sx::opt(st.get(&key(k)).unwrap().map(|v| Sx::i(unval(&v))))).collect();
        let listed: Vec<Sx> = st.list_checkpoints().iter().map(|c| Sx::us(issued.iter().position(|i| *i == c.id).unwrap_or(999))).collect();
        let files: Vec<Sx> = issued.iter().map(|id| file_status(dir, id)).collect();
        obs.push(Sx::l(vec![Sx::b(res), Sx::l(gets), Sx::us(st.len()), Sx::l(listed), Sx::l(files)]));
    }
    let label = if nck + ncrash == 0 { "trivial".to_string() } else {
        format!("ck{}{}{}{}", (nck + ncrash).min(3), if ncrash > 0 { " crash" } else { "" }, if nrest > 0 { " restore" } else { "" }, if samems { " same-ms" } else { "" }) };
    (Sx::l(obs), label)
}

/// every truncation offset of a real state.json: restore must fail (store untouched) or yield the complete state
fn run_trunc(case: &Sx, dir: &Path) -> (Sx, String) {
    hooks::set_clock_ms(Some(5000));
    let mut st = StateStore::with_config(StateConfig { backend: StateBackend::File { path: dir.to_path_buf() }, ..Default::default() });
    let mut expect: Vec<(u64, i64)> = vec![];
    for kv in case.at(1).as_l() { st.put(key(kv.at(0).as_u()), val(kv.at(1).as_i() as i64)).unwrap(); expect.push((kv.at(0).as_u(), kv.at(1).as_i() as i64)); }
    let id = st.checkpoint("t").unwrap();
    let path = dir.join(&id).join("state.json");
    let bytes = std::fs::read(&path).unwrap();
    let mut outs = vec![];
    for n in 0..=bytes.len() {
        std::fs::write(&path, &bytes[..n]).unwrap();
        // a different current state, to tell "untouched" from "restored"
        let mut probe = StateStore::with_config(StateConfig { backend: StateBackend::File { path: dir.to_path_buf() }, ..Default::default() });
        probe.put("marker", Value::Integer(424242)).unwrap();
        let r = probe.restore(&id);
        let marker = probe.get("marker").unwrap().is_some();
        let full = expect.iter().all(|(k, v)| probe.get(&key(*k)).unwrap().map(|x| unval(&x)) == Some(*v)) && probe.len() == expect.len();
        outs.push(Sx::n(match (r.is_ok(), marker, full) { (false, true, _) => 0, (true, false, true) => 1, _ => 2 }));
    }
    (Sx::l(vec![Sx::us(bytes.len()), Sx::l(outs)]), "truncation sweep".into())
}
