//! C19 — ParallelRuleEngine::execute_parallel vs the sequential verdicts, under perturbed schedules.
//! case = ((enabled threads min) ((k v) ...) ((name sal enabled cond) ...) repetitions)
use crate::rng::Rng;
use crate::sx::Sx;
use crate::Tier;
use rust_rule_engine::engine::facts::Facts;
use rust_rule_engine::engine::knowledge_base::KnowledgeBase;
use rust_rule_engine::engine::parallel::{ParallelConfig, ParallelRuleEngine};
use rust_rule_engine::engine::rule::{Condition, ConditionGroup, Rule};
use rust_rule_engine::types::{Operator, Value};
use std::collections::HashMap;

fn gen_cond(rng: &mut Rng, depth: u32) -> Sx {
    if depth == 0 || rng.chance(1, 2) {
        return Sx::l(vec![Sx::n(0), Sx::i(rng.below(5) as i64), Sx::n(rng.below(6)), Sx::i(rng.below(6) as i64)]);
    }
    match rng.below(3) {
        0 => Sx::l(vec![Sx::n(1), gen_cond(rng, depth - 1), gen_cond(rng, depth - 1)]),
        1 => Sx::l(vec![Sx::n(2), gen_cond(rng, depth - 1), gen_cond(rng, depth - 1)]),
        _ => Sx::l(vec![Sx::n(3), gen_cond(rng, depth - 1)]),
    }
}

pub fn gen(tier: Tier, rng: &mut Rng) -> Vec<Sx> {
    let mut v = vec![];
    let n = if tier == Tier::Thorough { 2500 } else { 700 };
    for _ in 0..n {
        let nr = rng.range(1, 24);
        let sals = [0i64, 0, 0, 5, 5, -2, 10];
        let rules: Vec<Sx> = (0..nr).map(|i| Sx::l(vec![Sx::i(i as i64), Sx::i(*rng.pick(&sals)), Sx::b(rng.chance(9, 10)), gen_cond(rng, 3)])).collect();
        // field 4 is never present (missing-field semantics); others present with prob 5/6
        let mut kvs: Vec<Sx> = vec![];
        for k in 0..4 { if rng.chance(5, 6) { kvs.push(Sx::l(vec![Sx::i(k), Sx::i(rng.below(6) as i64)])); } }
        let cfg = Sx::l(vec![Sx::b(rng.chance(5, 6)), Sx::n(rng.range(1, 16)), Sx::n(rng.range(1, 4))]);
        v.push(Sx::l(vec![cfg, Sx::l(kvs), Sx::l(rules), Sx::n(if tier == Tier::Thorough { 10 } else { 6 })]));
    }
    // contention: ONE salience level with more rules than threads and as many threads as possible, cheap conditions - all workers
    // come back for more work at about the same time while fewer rules than workers are left
    let nc = if tier == Tier::Thorough { 1500 } else { 250 };
    for _ in 0..nc {
        let threads = *rng.pick(&[4u64, 8, 12, 16]);
        let nr = threads + rng.range(1, threads.min(8));
        let rules: Vec<Sx> = (0..nr).map(|i| Sx::l(vec![Sx::i(i as i64), Sx::i(0), Sx::b(true), gen_cond(rng, 0)])).collect();
        let kvs: Vec<Sx> = (0..4).map(|k| Sx::l(vec![Sx::i(k), Sx::i(rng.below(6) as i64)])).collect();
        let cfg = Sx::l(vec![Sx::b(true), Sx::n(threads), Sx::n(1)]);
        v.push(Sx::l(vec![cfg, Sx::l(kvs), Sx::l(rules), Sx::n(if tier == Tier::Thorough { 10 } else { 6 })]));
    }
    v
}

fn mk_cond(c: &Sx) -> ConditionGroup {
    let ops = [Operator::Equal, Operator::NotEqual, Operator::LessThan, Operator::LessThanOrEqual, Operator::GreaterThan, Operator::GreaterThanOrEqual];
    match c.at(0).as_u() {
        0 => ConditionGroup::single(Condition::new(format!("F.f{}", c.at(1).as_i()), ops[c.at(2).as_us()].clone(), Value::Integer(c.at(3).as_i() as i64))),
        1 => ConditionGroup::and(mk_cond(c.at(1)), mk_cond(c.at(2))),
        2 => ConditionGroup::or(mk_cond(c.at(1)), mk_cond(c.at(2))),
        _ => ConditionGroup::not(mk_cond(c.at(1))),
    }
}

pub fn run(case: &Sx) -> (Sx, String) {
    let cfg = case.at(0);
    let kb = KnowledgeBase::new("kb");
    for r in case.at(2).as_l() {
        let mut rule = Rule::new(format!("r{}", r.at(0).as_i()), mk_cond(r.at(3)), vec![]).with_salience(r.at(1).as_i() as i32);
        rule.enabled = r.at(2).as_b();
        kb.add_rule(rule).unwrap();
    }
    let facts = Facts::new();
    let mut f = HashMap::new();
    for kv in case.at(1).as_l() { f.insert(format!("f{}", kv.at(0).as_i()), Value::Integer(kv.at(1).as_i() as i64)); }
    facts.add_value("F", Value::Object(f)).unwrap();
    let eng = ParallelRuleEngine::new(ParallelConfig { enabled: cfg.at(0).as_b(), max_threads: cfg.at(1).as_us(), min_rules_per_thread: cfg.at(2).as_us(), dependency_analysis: true });
    // a decoy knowledge base with the same name, the same number of rules (hence the same version counter) and the same
    // rule names, but negated conditions and reversed saliences: the SAME engine runs it before every second observed
    // run, so anything the engine remembers about "the" knowledge base between calls shows up in the observed run
    let decoy = KnowledgeBase::new("kb");
    for r in case.at(2).as_l() {
        let mut rule = Rule::new(format!("r{}", r.at(0).as_i()), ConditionGroup::not(mk_cond(r.at(3))), vec![]).with_salience(-(r.at(1).as_i() as i32));
        rule.enabled = r.at(2).as_b();
        decoy.add_rule(rule).unwrap();
    }
    let mut obs = vec![]; let mut nfired = 0;
    rust_rule_engine::verif_hooks::set_yield(true);
    for rep in 0..case.at(3).as_us() {
        if rep % 2 == 0 { let _ = eng.execute_parallel(&decoy, &facts, false).unwrap(); }
        let r = eng.execute_parallel(&kb, &facts, false).unwrap();
        let mut ctx: Vec<(i64, bool)> = r.execution_contexts.iter().map(|c| (c.rule.name[1..].parse::<i64>().unwrap(), c.fired)).collect();
        ctx.sort();
        nfired = r.total_rules_fired;
        obs.push(Sx::l(vec![Sx::us(r.total_rules_evaluated), Sx::us(r.total_rules_fired), Sx::l(ctx.iter().map(|(n, f)| Sx::l(vec![Sx::i(*n), Sx::b(*f)])).collect())]));
    }
    rust_rule_engine::verif_hooks::set_yield(false);
    let nr = case.at(2).as_l().len();
    (Sx::l(obs), if nr >= 2 && cfg.at(0).as_b() { format!("parallel{}", if nfired > 0 { " fired" } else { "" }) } else if nr >= 2 { "sequential-config".into() } else { "trivial".into() })
}
