//! C08 — truth maintenance on the real IncrementalEngine.
//! case = (op ...) ; op = (0) | (1 (p ...)) | (2 h (p ...)) | (3 h)
use crate::rng::Rng;
use crate::sx::Sx;
use crate::Tier;
use rust_rule_engine::rete::facts::TypedFacts;
use rust_rule_engine::rete::propagation::IncrementalEngine;
use rust_rule_engine::rete::working_memory::FactHandle;

#[derive(Clone)]
enum Op { Ex, Lg(Vec<u64>), Aj(u64, Vec<u64>), Rt(u64) }

fn enc(ops: &[Op]) -> Sx {
    Sx::l(ops.iter().map(|o| match o {
        Op::Ex => Sx::l(vec![Sx::n(0)]),
        Op::Lg(p) => Sx::l(vec![Sx::n(1), Sx::ns(p.iter().cloned())]),
        Op::Aj(h, p) => Sx::l(vec![Sx::n(2), Sx::n(*h), Sx::ns(p.iter().cloned())]),
        Op::Rt(h) => Sx::l(vec![Sx::n(3), Sx::n(*h)]),
    }).collect())
}

/// tiny reference simulation used only to steer generation towards valid histories
/// (premises live when recorded); it is NOT the oracle.
struct Sim { live: Vec<bool>, logical: Vec<bool>, justs: Vec<(u64, Vec<u64>)> }
impl Sim {
    fn new() -> Sim { Sim { live: vec![false], logical: vec![false], justs: vec![] } }
    fn lives(&self) -> Vec<u64> { (1..self.live.len() as u64).filter(|h| self.live[*h as usize]).collect() }
    fn apply(&mut self, o: &Op) {
        match o {
            Op::Ex => { self.live.push(true); self.logical.push(false); }
            Op::Lg(p) => { self.live.push(true); self.logical.push(true); let h = self.live.len() as u64 - 1; self.justs.push((h, p.clone())); }
            Op::Aj(h, p) => { self.justs.push((*h, p.clone())); }
            Op::Rt(h) => {
                if (*h as usize) < self.live.len() && self.live[*h as usize] {
                    self.live[*h as usize] = false;
                    loop {
                        let mut ch = false;
                        for f in 1..self.live.len() {
                            if self.live[f] && self.logical[f] {
                                let sup = self.justs.iter().any(|(c, ps)| *c == f as u64 && ps.iter().all(|p| self.live[*p as usize]));
                                if !sup { self.live[f] = false; ch = true; }
                            }
                        }
                        if !ch { break; }
                    }
                }
            }
        }
    }
}

fn subsets(v: &[u64], maxk: usize) -> Vec<Vec<u64>> {
    let mut out = vec![];
    for m in 0u32..(1u32 << v.len()) {
        if (m.count_ones() as usize) <= maxk { out.push(v.iter().enumerate().filter(|(i, _)| m >> i & 1 == 1).map(|(_, x)| *x).collect()); }
    }
    out
}

fn enumerate(depth: usize, max_handles: usize, sim: &Sim, cur: &mut Vec<Op>, out: &mut Vec<Sx>, stride: &mut u64, keep_every: u64) {
    if !cur.is_empty() {
        *stride += 1;
        if *stride % keep_every == 0 { out.push(enc(cur)); }
    }
    if depth == 0 { return; }
    let lives = sim.lives();
    let mut cands: Vec<Op> = vec![];
    if sim.live.len() - 1 < max_handles {
        cands.push(Op::Ex);
        for s in subsets(&lives, 2) { if !s.is_empty() { cands.push(Op::Lg(s)); } }
    }
    for h in &lives {
        if sim.logical[*h as usize] {
            for s in subsets(&lives, 2) { if !s.is_empty() && !s.contains(h) { cands.push(Op::Aj(*h, s)); } }
        }
    }
    for h in 1..sim.live.len() as u64 { cands.push(Op::Rt(h)); }
    for o in cands {
        let mut s2 = Sim { live: sim.live.clone(), logical: sim.logical.clone(), justs: sim.justs.clone() };
        s2.apply(&o);
        cur.push(o);
        enumerate(depth - 1, max_handles, &s2, cur, out, stride, keep_every);
        cur.pop();
    }
}

pub fn gen(tier: Tier, rng: &mut Rng) -> Vec<Sx> {
    let mut v = vec![];
    // exhaustive: every valid history up to depth D over <= H handles (premise subsets of size <= 2)
    let (d, h, keep) = if tier == Tier::Thorough { (7, 4, 1) } else { (6, 4, 1) };
    let mut stride = 0u64;
    enumerate(d, h, &Sim::new(), &mut vec![], &mut v, &mut stride, keep);
    // deep histories around ONE derived fact: three explicit premises, the fact derived from the first, then every valid sequence of
    // up to 4 (thorough 5) operations "give it another single-premise justification" / "retract a premise" - justifications recorded
    // after others were lost, in every order (8..9 operations in all, beyond the depth of the exhaustive stream above)
    {
        let prefix = vec![Op::Ex, Op::Ex, Op::Ex, Op::Lg(vec![1])];
        let mut sim0 = Sim::new(); for o in &prefix { sim0.apply(o); }
        fn rec(depth: usize, sim: &Sim, cur: &mut Vec<Op>, out: &mut Vec<Sx>) {
            if cur.len() > 4 { out.push(enc(cur)); }
            if depth == 0 { return; }
            let mut cands: Vec<Op> = vec![];
            for p in 1..=3u64 { if sim.live[4] && sim.live[p as usize] { cands.push(Op::Aj(4, vec![p])); } if sim.live[p as usize] { cands.push(Op::Rt(p)); } }
            for o in cands {
                let mut s2 = Sim { live: sim.live.clone(), logical: sim.logical.clone(), justs: sim.justs.clone() };
                s2.apply(&o); cur.push(o); rec(depth - 1, &s2, cur, out); cur.pop();
            }
        }
        let mut cur = prefix.clone();
        rec(if tier == Tier::Thorough { 5 } else { 4 }, &sim0, &mut cur, &mut v);
    }
    // random: up to 10 ops over up to 7 facts, chains / diamonds / multiple justifications / cycles
    let n = if tier == Tier::Thorough { 400000 } else { 15000 };
    for _ in 0..n {
        let len = rng.range(3, 10) as usize;
        let mut sim = Sim::new();
        let mut ops = vec![];
        for _ in 0..len {
            let lives = sim.lives();
            let nh = sim.live.len() - 1;
            let pick_prems = |rng: &mut Rng, lives: &Vec<u64>, not: Option<u64>| -> Vec<u64> {
                let k = rng.range(1, 3) as usize;
                let mut p = vec![];
                for _ in 0..k { let c = *rng.pick(lives); if Some(c) != not && !p.contains(&c) { p.push(c); } }
                if rng.chance(1, 12) && !p.is_empty() { let d = p[0]; p.push(d); } // duplicated premise
                p
            };
            let r = rng.below(10);
            let o = if nh == 0 || (r < 2 && nh < 7) { Op::Ex }
                else if r < 5 && nh < 7 && !lives.is_empty() { let p = pick_prems(rng, &lives, None); if p.is_empty() { Op::Ex } else { Op::Lg(p) } }
                else if r < 7 && lives.iter().any(|h| sim.logical[*h as usize]) {
                    let lg: Vec<u64> = lives.iter().cloned().filter(|h| sim.logical[*h as usize]).collect();
                    let h = *rng.pick(&lg);
                    let p = pick_prems(rng, &lives, Some(h));
                    if p.is_empty() { Op::Rt(h) } else { Op::Aj(h, p) }
                }
                else { Op::Rt(rng.range(1, nh as u64)) };
            sim.apply(&o);
            ops.push(o);
        }
        v.push(enc(&ops));
    }
    v
}

pub fn run(case: &Sx) -> (Sx, String) {
    let mut e = IncrementalEngine::new();
    let mut issued: u64 = 0;
    let mut obs = vec![];
    let mut cascades = 0usize; let mut nlog = 0usize; let mut naj = 0usize;
    for o in case.as_l() {
        let k = o.at(0).as_u();
        let hs = |s: &Sx| -> Vec<FactHandle> { s.as_l().iter().map(|x| FactHandle::new(x.as_u())).collect() };
        let before: usize = (1..=issued).filter(|h| e.working_memory().get(&FactHandle::new(*h)).is_some()).count();
        let res: u64 = match k {
            0 => { issued += 1; e.insert_explicit("T".to_string(), TypedFacts::new()).id() }
            1 => { issued += 1; nlog += 1; e.insert_logical("T".to_string(), TypedFacts::new(), "r".to_string(), hs(o.at(1))).id() }
            2 => { naj += 1; e.tms_mut().add_logical_justification(FactHandle::new(o.at(1).as_u()), "r2".to_string(), hs(o.at(2))); 1 }
            _ => { if e.retract(FactHandle::new(o.at(1).as_u())).is_ok() { 1 } else { 0 } }
        };
        let after: usize = (1..=issued).filter(|h| e.working_memory().get(&FactHandle::new(*h)).is_some()).count();
        if k == 3 && before > after + 1 { cascades += 1; }
        let hsx: Vec<Sx> = (1..=issued).map(|h| {
            let fh = FactHandle::new(h);
            Sx::l(vec![Sx::b(e.working_memory().get(&fh).is_some()), Sx::b(e.tms().is_logical(fh)),
                       Sx::b(e.tms().is_explicit(fh)), Sx::b(e.tms().has_valid_justification(fh))])
        }).collect();
        obs.push(Sx::l(vec![Sx::n(res), Sx::l(hsx)]));
    }
    let label = if cascades > 0 { format!("cascade{} multi{}", cascades.min(3), (naj > 0) as u8) } else if nlog > 0 { "logical-no-cascade".into() } else { "trivial".into() };
    (Sx::l(obs), label)
}
