//! S-expression wire format shared with the Coq model (Base/Sx.v).
use std::fmt::Write;

#[derive(Clone, Debug, PartialEq, Eq, Hash)]
pub enum Sx {
    A(i128),
    L(Vec<Sx>),
}

impl Sx {
    pub fn n(x: u64) -> Sx { Sx::A(x as i128) }
    pub fn i(x: i64) -> Sx { Sx::A(x as i128) }
    pub fn b(x: bool) -> Sx { Sx::A(if x { 1 } else { 0 }) }
    pub fn us(x: usize) -> Sx { Sx::A(x as i128) }
    pub fn s(x: &str) -> Sx { Sx::L(x.chars().map(|c| Sx::A(c as u32 as i128)).collect()) }
    pub fn l(v: Vec<Sx>) -> Sx { Sx::L(v) }
    pub fn ns<I: IntoIterator<Item = u64>>(it: I) -> Sx { Sx::L(it.into_iter().map(Sx::n).collect()) }
    pub fn opt(o: Option<Sx>) -> Sx { match o { None => Sx::L(vec![]), Some(x) => Sx::L(vec![x]) } }
    pub fn as_i(&self) -> i128 { match self { Sx::A(z) => *z, _ => panic!("sx: atom expected, got {}", self.show()) } }
    pub fn as_u(&self) -> u64 { self.as_i() as u64 }
    pub fn as_us(&self) -> usize { self.as_i() as usize }
    pub fn as_b(&self) -> bool { self.as_i() != 0 }
    pub fn as_l(&self) -> &Vec<Sx> { match self { Sx::L(l) => l, _ => panic!("sx: list expected") } }
    pub fn as_s(&self) -> String { self.as_l().iter().map(|c| char::from_u32(c.as_i() as u32).unwrap()).collect() }
    pub fn at(&self, i: usize) -> &Sx { &self.as_l()[i] }
    pub fn show(&self) -> String { let mut s = String::new(); self.write(&mut s); s }
    pub fn write(&self, out: &mut String) {
        match self {
            Sx::A(z) => { write!(out, "{}", z).unwrap(); }
            Sx::L(l) => {
                out.push('(');
                for (k, x) in l.iter().enumerate() { if k > 0 { out.push(' '); } x.write(out); }
                out.push(')');
            }
        }
    }
    pub fn parse(s: &str) -> Sx {
        let b = s.as_bytes();
        let mut i = 0usize;
        let r = Self::item(b, &mut i);
        r
    }
    fn skip(b: &[u8], i: &mut usize) { while *i < b.len() && (b[*i] == b' ' || b[*i] == b'\t' || b[*i] == b'\r' || b[*i] == b'\n') { *i += 1; } }
    fn item(b: &[u8], i: &mut usize) -> Sx {
        Self::skip(b, i);
        if b[*i] == b'(' {
            *i += 1;
            let mut v = vec![];
            loop {
                Self::skip(b, i);
                if b[*i] == b')' { *i += 1; break; }
                v.push(Self::item(b, i));
            }
            Sx::L(v)
        } else {
            let st = *i;
            if b[*i] == b'-' { *i += 1; }
            while *i < b.len() && b[*i].is_ascii_digit() { *i += 1; }
            Sx::A(std::str::from_utf8(&b[st..*i]).unwrap().parse::<i128>().unwrap())
        }
    }
}
