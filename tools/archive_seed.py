#!/usr/bin/env python3
"""tools/archive_seed.py <wt-name> <Cxx> <what> <needs> [history] [features] : copy /tmp/wt-<name>/_seed to seeded/Cxx-n with meta.json, remove the worktree."""
import json, os, shutil, sys, glob, subprocess
ROOT = os.path.dirname(os.path.dirname(os.path.abspath(__file__)))
wt, pid, what, needs = sys.argv[1:5]
hist = sys.argv[5] if len(sys.argv) > 5 else ""
feat = sys.argv[6] if len(sys.argv) > 6 else ""
n = 1 + max([int(os.path.basename(d).split("-")[1]) for d in glob.glob(os.path.join(ROOT, "seeded", pid + "-*"))] + [0])
d = os.path.join(ROOT, "seeded", "%s-%d" % (pid, n)); os.makedirs(d)
for f in ("patch.diff", "demo.rs", "notes.md"):
    shutil.copy("/tmp/wt-%s/_seed/%s" % (wt, f), os.path.join(d, f))
m = {"property": pid, "what": what, "needs_to_manifest": needs,
     "author": "independent sub-agent given only the property text, the description of the earlier seeded change(s) to avoid, and a scratch worktree of /repo",
     "confirmed": {"existing_suite_with_change": "cargo test --workspace --no-fail-fast --offline: 205 passed, 0 failed", "demo_with_change": "fails", "demo_without_change": "passes",
                   "how": "tools/confirm_seed.sh %s%s  in /tmp/wt-%s" % (wt, (" " + feat) if feat else "", wt)},
     "detected_by": "tools/check %s --tier quick (tools/try_seed.sh): exit 1" % pid, "check_output": ["VIOLATION property=%s replay=replays/..." % pid]}
if hist: m["history"] = hist
json.dump(m, open(os.path.join(d, "meta.json"), "w"), indent=1, ensure_ascii=False)
subprocess.call(["git", "-C", "/repo", "worktree", "remove", "--force", "/tmp/wt-" + wt])
shutil.rmtree("/tmp/seedtmp-" + wt, ignore_errors=True)
print(d)
