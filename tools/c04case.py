#!/usr/bin/env python3
"""Build C04 corpus cases (encodings of coq/Model/Grl.v) from a compact Python description."""
import sys, os
sys.path.insert(0, os.path.dirname(__file__))
import sxlib
from c01case import S, lit, ae, cond, F
def gcond(c):
    if c[0] == "and": return [1, gcond(c[1]), gcond(c[2])]
    if c[0] == "or": return [2, gcond(c[1]), gcond(c[2])]
    if c[0] == "not": return [3, gcond(c[1])]
    if c[0] == "par": return [4, gcond(c[1])]
    return cond(c)
def attr(a):
    k = a[0]
    if k == "salience": return [0, a[1]]
    if k == "no-loop": return [1, 1]
    if k == "lock": return [2, 1]
    if k == "agenda": return [3, S(a[1])]
    if k == "activation": return [4, S(a[1])]
def act(a):
    k = a[0]
    if k == "set": return [0, [S(p) for p in a[1].split(".")], ae(a[2])]
    if k == "append": return [1, [S(p) for p in a[1].split(".")], ae(a[2])]
    if k == "log": return [2, S(a[1])]
    if k == "call": return [8, S(a[1]), [lit(x) for x in a[2]]]
def rule(name, attrs, c, acts, quoted=True, descr=None, layout=7):
    return [0 if quoted else 1, S(name), [S(descr)] if descr else [], layout, [attr(a) for a in attrs], gcond(c), [act(a) for a in acts]]
def file(rules, feats=()): return sxlib.show([0, rules, list(feats)])
def when(text, c): return sxlib.show([1, S(text), gcond(c)])
if __name__ == "__main__":
    simple = (F("X.a"), "==", 1)
    out = [
     ("# && inside a string literal split the when clause (fixed: quote-aware split_logical_operator)",
      when('X.a == "p && q" && X.b > 1', ("and", (F("X.a"), "==", "p && q"), (F("X.b"), ">", 1)))),
     ("# \"((A && B))\": only one pair of outer parentheses was removed, the rest was parsed as one comparison (fixed)",
      when('((X.a == 1 && X.b > 1))', ("par", ("par", ("and", (F("X.a"), "==", 1), (F("X.b"), ">", 1)))))),
     ("# a parenthesis inside a string literal broke the outer-parenthesis matching (fixed)",
      when('(X.a == ")" || X.b > 1)', ("par", ("or", (F("X.a"), "==", ")"), (F("X.b"), ">", 1))))),
     ("# \"f(x) > 1\" inside a string literal was taken for a function-call condition (fixed: anchored)",
      when('X.a == "f(x) > 1"', (F("X.a"), "==", "f(x) > 1"))),
     ("# salience -5 was parsed as 0 (fixed)",
      file([rule("A", [("salience", -5)], simple, [("set", "X.b", 2)])])),
     ("# a ';' inside a string literal ended the statement (fixed)",
      file([rule("A", [], simple, [("set", "X.b", "a;b"), ("set", "X.c", 3)])])),
     ("# activation-group \"salience 7\" set the salience to 7 (fixed)",
      file([rule("A", [("activation", "salience 7")], simple, [("set", "X.b", 2)])])),
     ("# Log(\"a = b\") became an assignment to the field Log(\"a (fixed)",
      file([rule("A", [], simple, [("log", "a = b")])])),
     ("# Audit(1, \"a, b\", \")\"): the comma and the parenthesis inside string arguments broke the call (fixed)",
      file([rule("A", [], simple, [("call", "Audit", [1, "a, b", ")"])])])),
     ("# known finding C04-closing-brace-in-string",
      file([rule("A", [], (F("X.a"), "==", "}"), [("set", "X.b", 2)])])),
     ("# known finding C04-then-in-when-string",
      file([rule("A", [], (F("X.a"), "==", "now then go"), [("set", "X.b", 2)])])),
    ]
    for c, l in out: print(c); print(l)
