#!/bin/sh
# usage: tools/confirm_seed.sh Cxx [cargo feature flags for the demo]
# Confirms a seeded change in /tmp/wt-Cxx: existing suite passes with it; demo fails with it, passes without.
P=$1; shift; FEAT="$@"
W=/tmp/wt-$P
cd $W || exit 2
export CARGO_NET_OFFLINE=true
git diff --quiet -- src && { echo "no source change applied in $W"; exit 2; }
mkdir -p /tmp/seedtmp-$P && mv tests/seed_demo.rs /tmp/seedtmp-$P/ 2>/dev/null
echo "== existing suite WITH change"; cargo test --workspace --no-fail-fast --offline 2>&1 | grep -E "^test result" | awk '{p+=$4; f+=$6} END {print "passed",p,"failed",f}'
cp /tmp/seedtmp-$P/seed_demo.rs tests/seed_demo.rs
echo "== demo WITH change (expect failure)"; cargo test --offline $FEAT --test seed_demo 2>&1 | grep -E "^test result|error\[" | head -3
git apply -R _seed/patch.diff || { echo "cannot revert"; exit 2; }
echo "== demo WITHOUT change (expect ok)"; cargo test --offline $FEAT --test seed_demo 2>&1 | grep -E "^test result|error\[" | head -3
git apply _seed/patch.diff
