(* allow-axioms:  *)
From RRE Require Import Base.Sx Generated.Consts Model.ReteAgenda Model.Incremental Proofs.IncrementalProofs Proofs.IncrementalViewsProofs Proofs.IncrementalOnceProofs.
Open Scope Z_scope.
From RRE Require Import Properties.C06.
Check (C06_fires_only_if_true : forall x x' out,
  fire_all x = (x', out) -> Forall (firing_ok (rules (e_ x))) out).
Check (C06_fire_loop_sound : forall fuel iter x out x' out',
  fire_loop fuel iter x out = (x', out') ->
  Forall (firing_ok (rules (e_ x))) out -> Forall (firing_ok (rules (e_ x))) out').
Check (C06_handles_fresh : forall x t d,
  snd (do_insert x t d) = next_h (e_ x) /\ next_h (e_ (fst (do_insert x t d))) = next_h (e_ x) + 1).
Check (C06_views_agree : forall sorted rs ops f,
  let e := e_ (exec sorted {| e_ := init rs; matched := [] |} ops) in
  (In f (all_live e) <-> live_fact e (f_h f) = Some f)
  /\ (In f (all_live e) <-> In f (facts_of_type e (f_type f)))
  /\ (In f (all_live e) <-> In f (wm e) /\ f_retracted f = false)).
Check (C06_retracted_in_no_view : forall sorted rs ops f,
  let e := e_ (exec sorted {| e_ := init rs; matched := [] |} ops) in
  In f (wm e) -> f_retracted f = true ->
  live_fact e (f_h f) = None /\ ~ In f (all_live e) /\ ~ In f (facts_of_type e (f_type f))).
Check (C06_handles_unique : forall sorted rs ops,
  let x := exec sorted {| e_ := init rs; matched := [] |} ops in
  NoDup (map f_h (wm (e_ x))) /\ forall h, In h (map f_h (wm (e_ x))) -> 1 <= h < next_h (e_ x)).
Check (C06_fire_exactly_once : forall rs ops x' fs,
  forallb r_noloop rs = true -> inert rs = true -> NoDup (map r_name rs) ->
  let x0 := {| e_ := init rs; matched := [] |} in
  let x := exec false x0 ops in
  hist_ok rs x0 ops -> fits rs x -> fire_all x = (x', fs) ->
  NoDup (map fi_rule fs) /\
  (forall n, In n (map fi_rule fs) <->
             ~ In n (fired x) /\ exists r f, In r rs /\ r_name r = n /\ In f (wm (e_ x)) /\ Sat r f) /\
  fired x' = fired x ++ map fi_rule fs /\ wm (e_ x') = wm (e_ x)).
Check (C06_first_fire_exactly_once : forall rs ops x' fs,
  forallb r_noloop rs = true -> inert rs = true -> NoDup (map r_name rs) ->
  forallb is_edit ops = true ->
  let x := exec false {| e_ := init rs; matched := [] |} ops in
  fits rs x -> fire_all x = (x', fs) ->
  NoDup (map fi_rule fs) /\
  forall n, In n (map fi_rule fs) <-> exists r f, In r rs /\ r_name r = n /\ In f (wm (e_ x)) /\ Sat r f).
