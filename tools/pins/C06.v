(* allow-axioms:  *)
From RRE Require Import Base.Sx Generated.Consts Model.ReteAgenda Model.Incremental Proofs.IncrementalProofs Proofs.IncrementalViewsProofs.
Open Scope Z_scope.
From RRE Require Import Properties.C06.
Check (C06_fires_only_if_true : forall x x' out,
  fire_all x = (x', out) -> Forall (firing_ok (rules (e_ x))) out).
Check (C06_fire_loop_sound : forall fuel iter x out x' out',
  fire_loop fuel iter x out = (x', out') ->
  Forall (firing_ok (rules (e_ x))) out -> Forall (firing_ok (rules (e_ x))) out').
Check (C06_handles_fresh : forall x t d,
  snd (do_insert x t d) = next_h (e_ x) /\ next_h (e_ (fst (do_insert x t d))) = next_h (e_ x) + 1).
Check (C06_views_agree : forall sorted rs ops f,
  let e := e_ (exec sorted {| e_ := init rs; matched := [] |} ops) in
  (In f (all_live e) <-> live_fact e (f_h f) = Some f)
  /\ (In f (all_live e) <-> In f (facts_of_type e (f_type f)))
  /\ (In f (all_live e) <-> In f (wm e) /\ f_retracted f = false)).
Check (C06_retracted_in_no_view : forall sorted rs ops f,
  let e := e_ (exec sorted {| e_ := init rs; matched := [] |} ops) in
  In f (wm e) -> f_retracted f = true ->
  live_fact e (f_h f) = None /\ ~ In f (all_live e) /\ ~ In f (facts_of_type e (f_type f))).
Check (C06_handles_unique : forall sorted rs ops,
  let x := exec sorted {| e_ := init rs; matched := [] |} ops in
  NoDup (map f_h (wm (e_ x))) /\ forall h, In h (map f_h (wm (e_ x))) -> 1 <= h < next_h (e_ x)).
