(* allow-axioms:  *)
From RRE Require Import Base.Sx Generated.Consts Model.ReteAgenda Model.Incremental Proofs.IncrementalProofs.
Open Scope Z_scope.
From RRE Require Import Properties.C06.
Check (C06_fires_only_if_true : forall x x' out,
  fire_all x = (x', out) -> Forall (firing_ok (rules (e_ x))) out).
Check (C06_fire_loop_sound : forall fuel iter x out x' out',
  fire_loop fuel iter x out = (x', out') ->
  Forall (firing_ok (rules (e_ x))) out -> Forall (firing_ok (rules (e_ x))) out').
Check (C06_handles_fresh : forall x t d,
  snd (do_insert x t d) = next_h (e_ x) /\ next_h (e_ (fst (do_insert x t d))) = next_h (e_ x) + 1).
