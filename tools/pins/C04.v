(* allow-axioms:  *)
From RRE Require Import Base.Sx Base.Float Base.Num Model.ExprShape Model.Forward Model.ForwardSpec Model.Grl Proofs.GrlProofs Proofs.GrlTreeProofs Proofs.SourceTablesProofs.
From RRE Require Generated.Consts.
Open Scope Z_scope.
From RRE Require Import Model.GrlSplit Proofs.GrlSplitProofs.
From RRE Require Import Properties.C04.
Check (C04_string_literals_opaque : forall op q s, ((q =? 34) || (q =? 39)) = true -> memc q s = false -> inert op (q :: s ++ [q])).
Check (C04_parentheses_protect : forall op t, inert_in op t -> op <> 40 -> op <> 41 -> inert op (40 :: t ++ [41])).
Check (C04_top_level_separator : forall op a b, op <> 34 -> op <> 39 -> op <> 40 -> op <> 41 ->
  inert op a -> inert op b -> trim ws_unicode b <> [] ->
  split_on op (a ++ [op; op] ++ b) = Some [trim ws_unicode a; trim ws_unicode b]).
Check (C04_inert_compose : forall op a b, inert op a -> inert op b -> inert op (a ++ b)).
Check (C04_ordinary_text_inert : forall op t, forallb (ordinary op) t = true -> inert op t).
Check (C04_condition_tree_roundtrip : forall g, wf_g g -> parse_when_text (pr_g g) = skel g).
Check (C04_operator_tables_are_the_sources : variants_covered = true /\ printed_texts_parse_back = true /\ grl_table_is_source = true).
Check (C04_plain_leaf_ok : forall t c r c' r', t = c :: r -> rev t = c' :: r' -> forallb ord2 t = true ->
  ws_unicode c = false -> (c =? 33) = false -> ws_unicode c' = false -> leaf_ok t).
Check (C04_string_leaf_ok : forall a c r q s, a = c :: r -> forallb ord2 a = true -> ws_unicode c = false -> (c =? 33) = false ->
  ((q =? 34) || (q =? 39)) = true -> memc q s = false -> leaf_ok (a ++ q :: s ++ [q])).
Check (C04_literal_is_opaque_to_splitting : forall sep x content,
  is_quote x = true -> is_quote sep = false -> ~ In x content -> piece_ok sep (literal x content)).
Check (C04_pieces_compose : forall sep a b, piece_ok sep a -> piece_ok sep b -> piece_ok sep (a ++ b)).
Check (C04_then_statements_roundtrip : forall ps, ps <> [] -> Forall (piece_ok 59) ps ->
  then_statements (join 59 ps) = filter nonempty (map trimw ps)).
Check (C04_split_arguments_roundtrip : forall ps, ps <> [] -> Forall (piece_ok 44) ps -> split_arguments (join 44 ps) = ps).
Check (C04_statement_classification_total : forall st, classify st <> SPanic).
Check (C04_rule_block_ends_at_the_written_brace : forall p rest, piece_ok 125 p ->
  find_outside (p ++ 125 :: rest) [125] = Some (ExprShape.blen p)).
Check (C04_attributes_end_at_the_written_brace : forall p rest, piece_ok 123 p ->
  find_outside (p ++ 123 :: rest) [123] = Some (ExprShape.blen p)).
Check (C04_then_inside_a_literal_is_not_the_keyword : forall x content rest acc first,
  is_quote x = true -> ~ In x content ->
  scan_then (literal x content ++ rest) None acc first = scan_then rest None (rev (literal x content) ++ acc) false).
Check (C04_split_at_the_written_then : forall c x w2 w3 y a,
  c <> [] -> passes c (x :: w2 ++ s_then ++ w3 ++ y :: a) None true = true -> scan None c = None ->
  ExprShape.ws_unicode x = true -> all_ws w2 -> w3 <> [] -> all_ws w3 -> ExprShape.ws_unicode y = false ->
  scan_then (c ++ x :: w2 ++ s_then ++ w3 ++ y :: a) None [] true = Some (c, y :: a)).
