(* allow-axioms:  *)
From RRE Require Import Base.Sx Model.Module Proofs.ModuleProofs Proofs.ModuleAcyclicProofs Proofs.ModuleListingProofs.
Open Scope N_scope.
From RRE Require Import Properties.C18.
Check (C18_refused_noop : forall g o g', step g o = (g', false) -> g' = g).
Check (C18_self_import_refused : forall g n t pat re, snd (step g (Import n n t pat re)) = false).
Check (C18_declared_sources_exist : forall ops, Inv (mods (exec init ops))).
Check (C18_visibility_total : forall ops r to,
  exists_mod (mods (exec init ops)) to = true -> is_rule_visible (exec init ops) r to <> 2).
Check (C18_visible_iff_declared : forall ops r to,
  is_rule_visible (exec init ops) r to = spec_visible (mods (exec init ops)) r to).
Check (C18_imports_stay_acyclic : forall ops a, ~ path (dedge (mods (exec init ops))) a a).
Check (C18_graph_is_declarations : forall ops a b,
  In b (graph_of (graph (exec init ops)) a) <-> dedge (mods (exec init ops)) a b).
Check (C18_import_refused_only_for_cause : forall ops to from t pat re,
  snd (step (exec init ops) (Import to from t pat re)) = false ->
  find_mod (mods (exec init ops)) from = None \/ find_mod (mods (exec init ops)) to = None
  \/ to = from \/ path (dedge (mods (exec init ops))) from to).
Check (C18_import_closing_a_cycle_refused : forall ops to from t pat re,
  to = from \/ path (dedge (mods (exec init ops))) from to ->
  snd (step (exec init ops) (Import to from t pat re)) = false).
Check (C18_detect_cycle_is_reachability : forall g to from,
  detect_cycle g to from = true <-> to <> from /\ ~ path (fun a b => In b (graph_of (graph g) a)) from to).
Check (C18_listing_is_visibility : forall ops n r,
  exists_mod (mods (exec init ops)) n = true ->
  exists l, get_visible_rules (exec init ops) n = Some l
            /\ (mem_str r l = true <-> is_rule_visible (exec init ops) r n = 1 /\ mem_str r (all_rules (mods (exec init ops))) = true)).
