(* allow-axioms:  *)
From RRE Require Import Base.Sx Model.Module Proofs.ModuleProofs.
Open Scope N_scope.
From RRE Require Import Properties.C18.
Check (C18_refused_noop : forall g o g', step g o = (g', false) -> g' = g).
Check (C18_self_import_refused : forall g n t pat re, snd (step g (Import n n t pat re)) = false).
Check (C18_declared_sources_exist : forall ops, Inv (mods (exec init ops))).
Check (C18_visibility_total : forall ops r to,
  exists_mod (mods (exec init ops)) to = true -> is_rule_visible (exec init ops) r to <> 2).
Check (C18_visible_iff_declared : forall ops r to,
  is_rule_visible (exec init ops) r to = spec_visible (mods (exec init ops)) r to).
