(* allow-axioms:  *)
From RRE Require Import Base.Sx Model.Undo Proofs.UndoProofs.
From RRE Require Model.Backward Proofs.BackwardProofs.
Open Scope N_scope.
From RRE Require Import Properties.C10.
Check (C10_undo_refines_snapshots : forall nk kv ops, run nk kv ops = srun nk kv ops).
Check (C10_rollback_restores : forall kv ops0 ops,
  stays 0 ops = Some 0%nat ->
  let f := exec (init_of kv) ops0 in
  let f' := exec f (Begin :: ops ++ [Rollback]) in
  seq (data f') (data f) /\ seq (types f') (types f)).
Check (C10_monitor_accepts_model : forall nk kv ops, ok nk kv ops (run nk kv ops) = true).
Check (C10_failed_query_restores : forall rules max_depth fuel goal cands depth f f',
  Backward.search rules max_depth fuel goal cands depth f = (false, f') -> f' = f).
