(* allow-axioms:  *)
From RRE Require Import Base.Sx Base.Float Base.Num Model.ExprShape Model.Forward Model.ForwardSpec Model.Backward Proofs.BackwardProofs Proofs.BackwardClosureProofs Proofs.BackwardCompleteProofs.
From Coq Require Import Lia.
Open Scope Z_scope.
From RRE Require Import Properties.C09.
Check (C09_depth_first_sound : forall rules max_depth goal f f',
  dfs rules max_depth goal f = (true, f') -> goal_holds f' goal = true).
Check (C09_search_sound : forall rules max_depth fuel goal cands depth f f',
  search rules max_depth fuel goal cands depth f = (true, f') -> goal_holds f' goal = true).
Check (C09_iterative_sound : forall rules max_depth goal f f',
  ids rules max_depth goal f = (true, f') -> goal_holds f' goal = true).
Check (C09_result_within_closure : forall rules max_depth D, horn rules -> closedD rules D ->
  forall goal f b f', covers D f -> dfs rules max_depth goal f = (b, f') -> covers D f').
Check (C09_proven_goal_in_closure : forall rules max_depth D, horn rules -> closedD rules D ->
  forall goal f f', covers D f -> dfs rules max_depth goal f = (true, f') ->
    (exists v, In (b_field goal, v) D /\ goal_sat (Some v) goal = true) \/ goal_sat None goal = true).
Check (C09_bounded_completeness_partial : forall rules max_depth f0,
  flat f0 -> horn rules ->
  (forall k v v', In (k, v) (f0 ++ flat_map br_sets rules) -> In (k, v') (f0 ++ flat_map br_sets rules) -> v = v') ->
  (forall r, In r rules -> conj (br_cond r) = true) ->
  (forall r, In r rules -> glit_ok (f0 ++ flat_map br_sets rules) (br_cond r)) ->
  (forall r, In r rules -> (gdepth (br_cond r) <= 62)%nat) ->
  forall goal h, positive_op (b_op goal) = true -> Z.of_nat h <= max_depth ->
    goal_holds (level h rules f0) goal = true -> fst (dfs rules max_depth goal f0) = true).
Check (C09_search_extends_facts : forall rules max_depth f0, horn rules ->
  (forall k v v', In (k, v) (f0 ++ flat_map br_sets rules) -> In (k, v') (f0 ++ flat_map br_sets rules) -> v = v') ->
  forall fuel goal cands depth f b f', (forall r, In r cands -> In r rules) -> covers (f0 ++ flat_map br_sets rules) f ->
    search rules max_depth fuel goal cands depth f = (b, f') -> forall k v, fget f k = Some v -> fget f' k = Some v).
