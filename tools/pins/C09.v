(* allow-axioms:  *)
From RRE Require Import Base.Sx Base.Float Base.Num Model.ExprShape Model.Forward Model.ForwardSpec Model.Backward Proofs.BackwardProofs Proofs.BackwardClosureProofs.
Open Scope Z_scope.
From RRE Require Import Properties.C09.
Check (C09_depth_first_sound : forall rules max_depth goal f f',
  dfs rules max_depth goal f = (true, f') -> goal_holds f' goal = true).
Check (C09_search_sound : forall rules max_depth fuel goal cands depth f f',
  search rules max_depth fuel goal cands depth f = (true, f') -> goal_holds f' goal = true).
Check (C09_iterative_sound : forall rules max_depth goal f f',
  ids rules max_depth goal f = (true, f') -> goal_holds f' goal = true).
Check (C09_result_within_closure : forall rules max_depth D, horn rules -> closedD rules D ->
  forall goal f b f', covers D f -> dfs rules max_depth goal f = (b, f') -> covers D f').
Check (C09_proven_goal_in_closure : forall rules max_depth D, horn rules -> closedD rules D ->
  forall goal f f', covers D f -> dfs rules max_depth goal f = (true, f') ->
    (exists v, In (b_field goal, v) D /\ goal_sat (Some v) goal = true) \/ goal_sat None goal = true).
