(* allow-axioms:  *)
From RRE Require Import Base.Sx Base.Float Base.Num Model.ExprShape Model.Forward Model.ForwardSpec Model.Backward Proofs.BackwardProofs.
Open Scope Z_scope.
From RRE Require Import Properties.C09.
Check (C09_depth_first_sound : forall rules max_depth goal f f',
  dfs rules max_depth goal f = (true, f') -> goal_holds f' goal = true).
Check (C09_search_sound : forall rules max_depth fuel goal cands depth f f',
  search rules max_depth fuel goal cands depth f = (true, f') -> goal_holds f' goal = true).
Check (C09_iterative_sound : forall rules max_depth goal f f',
  ids rules max_depth goal f = (true, f') -> goal_holds f' goal = true).
