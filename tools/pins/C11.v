(* allow-axioms:  *)
From RRE Require Import Base.Sx Base.Float Base.Num Model.ExprShape Model.Forward Model.ForwardSpec Model.Backward Proofs.BackwardProofs.
Open Scope Z_scope.
From RRE Require Import Properties.C11.
Check (C11_memo_never_changes_an_answer : forall rules max_depth,
  (forall goal f f', enc_facts f = enc_facts f' -> fst (dfs rules max_depth goal f) = fst (dfs rules max_depth goal f')) ->
  forall e q goal f, memo_sound rules max_depth e -> dec_bcond q = Some goal ->
    fst (snd (equery rules max_depth e q goal f)) = fst (dfs rules max_depth goal f)
    /\ memo_sound rules max_depth (fst (equery rules max_depth e q goal f))).
Check (C11_fresh_engine_sound : forall rules max_depth, memo_sound rules max_depth {| memo := [] |}).
