(* allow-axioms:  *)
From RRE Require Import Base.Sx Base.Float Base.Num Model.ExprShape Model.Forward Model.ForwardSpec Model.Backward Proofs.BackwardProofs Proofs.BackwardEquivProofs.
Open Scope Z_scope.
From RRE Require Import Properties.C11.
Check (C11_memo_never_changes_an_answer : forall rules max_depth,
  (forall goal f f', enc_facts f = enc_facts f' -> fst (dfs rules max_depth goal f) = fst (dfs rules max_depth goal f')) ->
  forall e q goal f, memo_sound rules max_depth e -> dec_bcond q = Some goal ->
    fst (snd (equery rules max_depth e q goal f)) = fst (dfs rules max_depth goal f)
    /\ memo_sound rules max_depth (fst (equery rules max_depth e q goal f))).
Check (C11_fresh_engine_sound : forall rules max_depth, memo_sound rules max_depth {| memo := [] |}).
Check (C11_verdict_depends_only_on_lookups : forall rules max_depth goal f f',
  (forall k, fget f k = fget f' k) -> fst (dfs rules max_depth goal f) = fst (dfs rules max_depth goal f')).
Check (C11_memo_key_determines_lookups : forall f f',
  dstore f -> dstore f' -> enc_facts f = enc_facts f' -> forall k, fget f k = fget f' k).
Check (C11_history_is_fresh : forall rules max_depth qs,
  (forall q goal f, In (q, goal, f) qs -> dstore f /\ dec_bcond q = Some goal) ->
  equeries rules max_depth {| memo := [] |} qs = map (fun '(q, goal, f) => fst (dfs rules max_depth goal f)) qs).
