(* allow-axioms:  *)
From RRE Require Import Base.Sx Model.Engine Proofs.EngineProofs.
Open Scope Z_scope.
From RRE Require Import Model.EngineConc.
From RRE Require Import Properties.C03.
Check (C03_cycles_bounded : forall (cond action store : Type) (eval : cond -> store -> bool)
    (act : action -> store -> store * list effect) maxc t (e : engine cond action) s,
  let '(_, _, r) := execute eval act maxc t e s in
  0 <= res_cycles r <= Z.of_nat maxc /\ res_cycles r = Z.of_nat (length (res_trace r))
  /\ res_fired r = Z.of_nat (length (concat (res_trace r)))).
Check (C03_stops_iff_quiet : forall (cond action store : Type) (eval : cond -> store -> bool)
    (act : action -> store -> store * list effect) maxc t (e : engine cond action) s,
  let '(_, _, r) := execute eval act maxc t e s in shape_ok maxc (res_trace r)).
Check (C03_fixpoint : forall (cond action store : Type) (eval : cond -> store -> bool)
    (act : action -> store -> store * list effect) n t (e : engine cond action) s c e' s' c' trs,
  cycles eval act n t e s c = (e', s', c', trs) ->
  last trs [0] = [] -> trs <> [] ->
  forall r, In r (rules e') -> gates e' t r && eval (r_cond r) s' = false).
