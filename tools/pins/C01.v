(* allow-axioms:  *)
From RRE Require Import Base.Sx Base.Float Base.Num Model.ExprShape Model.Forward Model.ForwardSpec Proofs.ForwardProofs Proofs.ForwardExprProofs Proofs.ForwardStepProofs.
Open Scope Z_scope.
From RRE Require Import Properties.C01.
Check (C01_evaluator_computes_the_tree : forall f e, wf e = true -> evaluate_expression f (pr e) = meval f e).
Check (C01_expression_value : forall f e v, wf e = true -> atoms_ok e -> den f e = Some v ->
  evaluate_expression f (pr e) = EOk v).
Check (C01_operator_table : forall o x y b, sem_cmp o x y = Some b -> op_eval o x y = b).
Check (C01_condition_total : forall f g, exists b, eval_group f g = BOk b).
Check (C01_consideration : forall f r cr x, rule_ok r -> compile_rule r = Some cr ->
  sem_step true f r = Some x -> model_step f cr = x).
Check (C01_run : forall rs crs f res, Forall rule_ok rs -> compiled rs = Some crs ->
  run_rules (sem_step true) (sorted_spec rs) f = Some res ->
  run_rules (fun f r => Some (model_step f r)) (sorted_model crs) f = Some res).
Check (C01_strict_reading_refines_monitor : forall rs f res,
  run_rules (sem_step true) rs f = Some res -> run_rules (sem_step false) rs f = Some res).
Check (C01_run_follows_considerations : forall (R1 R2 : Type) (sem : facts -> R1 -> option sres) (eng : facts -> R2 -> option sres) (rel : R1 -> R2 -> Prop),
    (forall f r1 r2 x, rel r1 r2 -> sem f r1 = Some x -> eng f r2 = Some x) ->
    forall rs1 rs2 f res, rel_rules rel rs1 rs2 ->
      run_rules sem rs1 f = Some res -> run_rules eng rs2 f = Some res).
