(* allow-axioms:  *)
From RRE Require Import Base.Sx Base.Float Base.Num Model.ExprShape Model.Forward Model.ForwardSpec Proofs.ForwardProofs.
Open Scope Z_scope.
From RRE Require Import Properties.C01.
Check (C01_run_follows_considerations : forall (R1 R2 : Type) (sem : facts -> R1 -> option sres) (eng : facts -> R2 -> option sres) (rel : R1 -> R2 -> Prop),
    (forall f r1 r2 x, rel r1 r2 -> sem f r1 = Some x -> eng f r2 = Some x) ->
    forall rs1 rs2 f res, rel_rules rel rs1 rs2 ->
      run_rules sem rs1 f = Some res -> run_rules eng rs2 f = Some res).
Check (C01_salience_order_aligned : forall (T1 T2 : Type) (rel : T1 -> T2 -> Prop) (l1 : list (Z * Z * T1)) (l2 : list (Z * Z * T2)),
    Forall2 (fun a b => fst a = fst b /\ rel (snd a) (snd b)) l1 l2 ->
    Forall2 (fun x y => fst x = fst y /\ rel (snd x) (snd y)) (by_salience l1) (by_salience l2)).
