(* allow-axioms:  *)
From RRE Require Import Base.Sx Generated.Consts Model.ReteAgenda Proofs.ReteAgendaProofs Proofs.ReteAgendaHistoryProofs Proofs.AgendaOrdProofs.
Open Scope Z_scope.
From RRE Require Import Properties.C07.
Check (C07_next_is_eligible_and_greatest : forall n a a' m,
  AllDistinct (groups a) -> get_next n a = (a', Some m) ->
  eligible a m = true /\
  exists heap, grp_get (groups a) (focus a') = Some heap /\ In m heap /\
               forall y, In y heap -> eligible a y = true -> better y m = false).
Check (C07_ordering_is_the_sources : forall a b,
  better a b = match lex_cmp agenda_ord a b with Gt => true | _ => false end).
Check (C07_pop_loop_spec : forall a n l,
  (length l < n)%nat -> NoDup (map a_created l) -> NoDup (map a_id l) ->
  pop_eligible n a l =
  match best_eligible a l with
  | Some m => (Some m, filter (fun y => negb (a_id y =? a_id m) && negb (better y m)) l)
  | None => (None, [])
  end).
Check (C07_agenda_histories_meet_spec : forall ops,
  HistOk 0 ops -> run_from (init, None) ops = spec_run_from (init, None) ops).
Check (C07_ul_fire_all_bounded : forall rules, (snd (ul_fire_all rules) <= ul_max_iterations + 1)%N).
Check (C07_typed_fire_all_bounded : forall rules,
  typed_max_iterations <> None /\ (snd (typed_fire_all rules) <= typed_bound + 1)%N).
Check (C07_incr_fire_all_bounded : forall rules, (snd (incr_fire_all rules) <= incr_max_iterations + 1)%N).
Check (C07_histories_fire_at_most_once : forall ops, hist_sound (init, None) [] ops).
