(* allow-axioms:  *)
From RRE Require Import Base.Sx Model.Engine Proofs.EngineProofs.
From Coq Require Import Sorting.Sorted.
Open Scope Z_scope.
From RRE Require Import Model.EngineConc Proofs.EngineHistoryProofs.
From RRE Require Import Model.EngineConc.
From RRE Require Import Properties.C02.
Check (C02_rules_sorted : forall (cond action : Type) (rs : list (rule cond action)),
  StronglySorted (desc cond action) (rules (fold_left add_rule rs engine_init))).
Check (C02_insertion_order_among_equals : forall (cond action : Type) (x : rule cond action) l,
  exists a b, insert_stable x l = a ++ x :: b /\ l = a ++ b /\ Forall (fun y => r_sal x <= r_sal y) a).
Check (C02_pass_order : forall (cond action store : Type) (eval : cond -> store -> bool)
    (act : action -> store -> store * list effect) rs t (e : engine cond action) s,
  subseq (snd (pass eval act rs t e s)) (map r_name rs)).
Check (C02_gates_respected : forall (cond action store : Type) (eval : cond -> store -> bool)
    (act : action -> store -> store * list effect) rs t e s e0 s0 (r : rule cond action),
  In (e0, s0, r) (pass_log cond action store eval act rs t e s) ->
  In r rs /\ eval (r_cond r) s0 = true /\
  r_enabled r = true /\ group_of r = active (ag e0) /\ active_at r t = true /\
  can_fire_lock (ag e0) r = true /\
  (forall g, r_actgroup r = Some g -> memZ g (act_fired e0) = false) /\
  (r_noloop r = true -> memZ (r_name r) (fired_global e0) = false)).
Check (C02_log_is_trace : forall (cond action store : Type) (eval : cond -> store -> bool)
    (act : action -> store -> store * list effect) rs t (e : engine cond action) s,
  map (fun x => r_name (snd x)) (pass_log cond action store eval act rs t e s) = snd (pass eval act rs t e s)).
Check (C02_no_loop_once_per_pass : forall (cond action store : Type) (eval : cond -> store -> bool)
    (act : action -> store -> store * list effect) rs t (e : engine cond action) s n,
  NoDup (map r_name rs) ->
  (forall r, In r rs -> r_name r = n -> r_noloop r = true) ->
  (count n (snd (pass eval act rs t e s)) <= 1)%nat /\
  (In n (snd (pass eval act rs t e s)) -> memZ n (fired_global (fst (fst (pass eval act rs t e s)))) = true)).
Check (C02_no_loop_blocked_while_recorded : forall (cond action store : Type) (eval : cond -> store -> bool)
    (act : action -> store -> store * list effect) rs t (e : engine cond action) s n,
  memZ n (fired_global e) = true ->
  (forall r, In r rs -> r_name r = n -> r_noloop r = true) ->
  ~ In n (snd (pass eval act rs t e s)) /\ memZ n (fired_global (fst (fst (pass eval act rs t e s)))) = true).
Check (C02_no_loop_once_per_history : forall ops (es : cengine * store) n,
  no_reset_for n ops ->
  NoDup (map r_name (rules (fst es))) ->
  (forall r, In r (rules (fst es)) -> r_name r = n -> r_noloop r = true) ->
  (count n (hfired es ops) <= 1)%nat /\
  (memZ n (fired_global (fst es)) = true -> ~ In n (hfired es ops))).
Check (C02_no_loop_once_per_execute : forall (cond action store : Type) (eval : cond -> store -> bool)
    (act : action -> store -> store * list effect) mc t (e : engine cond action) s n,
  NoDup (map r_name (rules e)) ->
  (forall r, In r (rules e) -> r_name r = n -> r_noloop r = true) ->
  (count n (concat (res_trace (snd (execute eval act mc t e s)))) <= 1)%nat /\
  (memZ n (fired_global e) = true -> ~ In n (concat (res_trace (snd (execute eval act mc t e s)))))).
Check (C02_activation_group_one : forall (cond action store : Type) (eval : cond -> store -> bool)
    (act : action -> store -> store * list effect) rs t (e : engine cond action) s g,
  (length (filter (fun x => match r_actgroup (snd x) with Some g' => Z.eqb g' g | None => false end)
                  (pass_log cond action store eval act rs t e s)) <= 1)%nat).
Check (C02_lock_blocks_after_fire : forall (cond action : Type) (a : agenda) (r : rule cond action),
  r_lock r = true -> can_fire_lock (mark_lock a r) r = false).
Check (C02_lock_stays_blocked : forall (cond action : Type) (a : agenda) (r r' : rule cond action) g,
  can_fire_lock a r = false ->
  can_fire_lock (mark_lock a r') r = false /\
  (g <> group_of r -> can_fire_lock (set_focus a g) r = false) /\
  can_fire_lock (pop_focus a) r = false /\ can_fire_lock (clear_focus a) r = false).
