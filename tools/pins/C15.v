(* allow-axioms:  *)
From RRE Require Import Base.Sx Model.KB Proofs.KBProofs Proofs.KBRefineProofs Proofs.KBLinProofs.
From Coq Require Import Permutation.
From Coq Require Import Sorting.Sorted.
Open Scope Z_scope.
From RRE Require Import Properties.C15.
Check (C15_duplicate_rejected : forall k n sal tag p,
  idx_get (index k) n = Some p -> step k (Add n sal tag) = (k, RBool false)).
Check (C15_refused_noop : forall k o, snd (step k o) = RBool false -> fst (step k o) = k).
Check (C15_version_grows : forall k o,
  snd (step k o) = RBool true \/ o = Clear -> version (fst (step k o)) = version k + 1).
Check (C15_version_monotone : forall k o, version k <= version (fst (step k o))).
Check (C15_listing_descending : forall ops, StronglySorted desc (rules (exec init ops))).
Check (C15_lock_order : lock_order_ok = true).
Check (C15_sequential_refinement : forall ops, run_from init ops = srun_from sinit ops).
Check (C15_spec_listing : forall s, NoDup (map s_seq (srules s)) ->
  Permutation.Permutation (slisting s) (map s_rule (srules s))
  /\ StronglySorted (fun a b => before a b = true) (fold_left (fun acc x => sinsert x acc) (srules s) [])).
Check (C15_lin_checker_decides : forall fuel k p, (length p <= fuel)%nat ->
  (lin fuel k p = true <->
   exists s, Permutation s p /\ rt s = true /\ replay k s = true)).
