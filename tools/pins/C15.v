(* allow-axioms:  *)
From RRE Require Import Base.Sx Model.KB Model.KBConc Proofs.KBProofs Proofs.KBRefineProofs Proofs.KBLinProofs Proofs.KBConcLockProofs Proofs.KBConcProofs Proofs.KBConcProgressProofs.
From Coq Require Import Permutation.
From Coq Require Import Sorting.Sorted.
Open Scope Z_scope.
From RRE Require Import Generated.Consts.
From RRE Require Import Properties.C15.
Check (C15_duplicate_rejected : forall k n sal tag p,
  idx_get (index k) n = Some p -> step k (Add n sal tag) = (k, RBool false)).
Check (C15_refused_noop : forall k o, snd (step k o) = RBool false -> fst (step k o) = k).
Check (C15_version_grows : forall k o,
  snd (step k o) = RBool true \/ o = Clear -> version (fst (step k o)) = version k + 1).
Check (C15_version_monotone : forall k o, version k <= version (fst (step k o))).
Check (C15_listing_descending : forall ops, StronglySorted desc (rules (exec init ops))).
Check (C15_lock_order : lock_order_ok = true).
Check (C15_source_vector_operations : kb_add_is_push_then_stable_sort && kb_remove_is_vec_remove = true).
Check (C15_sequential_refinement : forall ops, run_from init ops = srun_from sinit ops).
Check (C15_spec_listing : forall s, NoDup (map s_seq (srules s)) ->
  Permutation.Permutation (slisting s) (map s_rule (srules s))
  /\ StronglySorted (fun a b => before a b = true) (fold_left (fun acc x => sinsert x acc) (srules s) [])).
Check (C15_lin_checker_decides : forall fuel k p, (length p <= fuel)%nat ->
  (lin fuel k p = true <->
   exists s, Permutation s p /\ rt s = true /\ replay k s = true)).
Check (C15_source_lock_table_admissible : forall o,
  ascending_from 0 (src_locks o) = true /\ covers (src_locks o) o = true).
Check (C15_every_interleaving_linearizable : forall progs sched,
  let s := run src_locks sched (ginit progs) in
  quiescent s ->
  linearizable sinit (map to_cevent (hist s)) /\ cells s = sigma s /\
  exists order, Permutation order (hist s) /\ Replays init (map hkey order) (cells s)).
Check (C15_monitor_accepts_every_interleaving : forall progs sched,
  let s := run src_locks sched (ginit progs) in
  quiescent s -> lin (S (length (hist s))) sinit (map to_cevent (hist s)) = true).
Check (C15_no_deadlock : forall progs sched,
  let s := run src_locks sched (ginit progs) in
  ~ finished s -> exists t s', cstep src_locks t s = Some s').
