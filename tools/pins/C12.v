(* allow-axioms:  *)
From RRE Require Model.StreamAlpha Proofs.StreamAlphaProofs.
From RRE Require Import Base.Sx Base.Float Model.Window Proofs.WindowProofs Proofs.WindowPlacementProofs.
Open Scope N_scope.
From RRE Require Import Proofs.WindowManagerProofs.
From Coq Require Import Sorting.Sorted Lia.
From RRE Require Import Properties.C12.
Check (C12_record_no_old : forall dur cap w e x,
  In x (w_events (record dur cap w e)) -> ets e - dur <= ets x).
Check (C12_record_young_suffix : forall dur cap w e,
  let young := filter (fun x => negb (ets x <? ets e - dur)) (w_events w ++ [e]) in
  exists k, w_events (record dur cap w e) = drop_front k young
            /\ k = (length young - N.to_nat cap)%nat).
Check (C12_record_capped : forall dur cap w e,
  (length (w_events (record dur cap w e)) <= N.to_nat cap)%nat).
Check (C12_record_keeps_new : forall dur cap w e, 1 <= cap -> In e (w_events (record dur cap w e))).
Check (C12_tumbling_aligned : forall dur cap es w x,
  In w (windowed dur cap es) -> In x (w_events w) ->
  w_start w = (ets x / dur) * dur /\ w_end w = w_start w + dur).
Check (C12_tumbling_one_window_per_interval : forall dur cap ws e,
  NoDup (map w_start ws) ->
  NoDup (map w_start (group_add dur cap ws e)) /\
  (forall s, In s (map w_start (group_add dur cap ws e)) <-> In s (map w_start ws) \/ s = (ets e / dur) * dur)).
Check (C12_tumbling_windows_exact : forall dur cap es, 0 < dur ->
  (forall w, In w (windowed dur cap es) ->
     w_end w = w_start w + dur /\
     w_events w = cap_events cap (filter (fun x => (ets x / dur) * dur =? w_start w) es) /\
     exists e, In e es /\ (ets e / dur) * dur = w_start w) /\
  (forall w1 w2, In w1 (windowed dur cap es) -> In w2 (windowed dur cap es) -> w_start w1 = w_start w2 -> w1 = w2) /\
  (forall e, In e es -> exists w, In w (windowed dur cap es) /\ w_start w = (ets e / dur) * dur)).
Check (C12_tumbling_exactly_one_window : forall dur cap es e w, 0 < dur ->
  (length es <= N.to_nat cap)%nat -> In e es -> In w (windowed dur cap es) ->
  (In e (w_events w) <-> w_start w = (ets e / dur) * dur)).
Check (C12_alpha_accepted_iff : forall kind d maxn now nd id ts s t,
  snd (StreamAlpha.process kind d maxn now nd id ts s t) = s && t && StreamAlpha.in_window kind d now ts).
Check (C12_alpha_nothing_before_the_window : forall kind d maxn now nd id ts s t nd',
  StreamAlpha.process kind d maxn now nd id ts s t = (nd', true) ->
  forall e, In e (StreamAlpha.n_events nd') -> (StreamAlphaProofs.lower kind d now <= snd e)%N).
Check (C12_alpha_buffer_only_shrinks : forall kind d maxn now nd id ts s t nd' b,
  StreamAlpha.process kind d maxn now nd id ts s t = (nd', b) ->
  forall e, In e (StreamAlpha.n_events nd') -> In e (StreamAlpha.n_events nd) \/ (b = true /\ e = (id, ts))).
Check (C12_manager_places_every_event_once : forall dur cap maxw, 0 < dur -> 1 <= cap -> 1 <= maxw ->
  forall es e,
  let ws := fold_left (process_event dur cap maxw) es [] in
  let ws' := process_event dur cap maxw ws e in
  (forall w, In w ws' -> (w_end w = w_start w + dur /\ w_start w mod dur = 0) /\
                         forall x, In x (w_events w) -> w_start w <= ets x /\ ets x < w_end w) /\
  StronglySorted (fun a b => w_start a < w_start b) ws' /\
  (length ws' <= N.to_nat maxw)%nat /\
  (exists w, In w ws' /\ In e (w_events w) /\ w_start w = (ets e / dur) * dur /\ w_end w = (ets e / dur) * dur + dur) /\
  (forall w1 w2, In w1 ws' -> In w2 ws' -> In e (w_events w1) -> In e (w_events w2) -> w1 = w2)).
