(* allow-axioms:  *)
From RRE Require Import Base.Sx Model.Watermark Proofs.WatermarkProofs.
Open Scope N_scope.
From RRE Require Import Properties.C13.
Check (C13_wm_monotone : forall ws ls es s,
  cur s <= cur (fold_left (add_event ws ls) es s)).
Check (C13_wm_bounded_exact : forall d ls es,
  cur (fold_left (add_event (WBounded d) ls) es init) = maxN (map ets es) - d).
Check (C13_late_iff_below : forall ws ls s e,
  let s' := add_event ws ls s e in
  (ets e < cur s ->
     late s' = late s + 1 /\ cur s' = cur s /\
     match decide ls (cur s) (ets e) with
     | DDrop => evs s' = evs s /\ side s' = side s /\ dropped s' = dropped s + 1
     | DSide => evs s' = evs s /\ side s' = side s ++ [e] /\ dropped s' = dropped s
     | _ => evs s' = evs s ++ [e] /\ side s' = side s /\ dropped s' = dropped s
     end) /\
  (cur s <= ets e ->
     late s' = late s /\ evs s' = evs s ++ [e] /\ side s' = side s /\ dropped s' = dropped s)).
Check (C13_accounting : forall ws ls es,
  let s := fold_left (add_event ws ls) es init in
  lenN (evs s) + dropped s + lenN (side s) = lenN es /\
  late s = dropped s + allowed s + lenN (side s)).
Check (C13_monitor_accepts_model : forall ws ls es, ok ws ls es (run (ws, ls, es)) = true).
