(* allow-axioms:  *)
From RRE Require Import Base.Sx Model.Tms Proofs.TmsProofs.
Open Scope N_scope.
From RRE Require Import Properties.C08.
Check (C08_cascade_never_takes_explicit : forall fuel js x t t' l o,
  cascade fuel js x t = (t', l, o) ->
  forall d, In d l -> has_explicit js d = false).
Check (C08_explicit_only_explicit : forall e x h,
  has_explicit (justs e) h = true -> x <> h ->
  live (wm (fst (fst (step e (Retract x))))) h = live (wm e) h).
Check (C08_only_retract_removes : forall e o h,
  (forall x, o <> Retract x) -> live (wm e) h = true ->
  live (wm (fst (fst (step e o)))) h = true).
