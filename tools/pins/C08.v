(* allow-axioms:  *)
From RRE Require Import Base.Sx Model.Tms Proofs.TmsProofs Proofs.TmsSupportProofs.
Open Scope N_scope.
From RRE Require Import Properties.C08.
Check (C08_cascade_never_takes_explicit : forall fuel js x t t' l o,
  cascade fuel js x t = (t', l, o) ->
  forall d, In d l -> has_explicit js d = false).
Check (C08_explicit_only_explicit : forall e x h,
  has_explicit (justs e) h = true -> x <> h ->
  live (wm (fst (fst (step e (Retract x))))) h = live (wm e) h).
Check (C08_only_retract_removes : forall e o h,
  (forall x, o <> Retract x) -> live (wm e) h = true ->
  live (wm (fst (fst (step e o)))) h = true).
Check (C08_present_iff_supported : forall ops, wf_run init ops ->
  (forall h, In h (map fst (wm (exec init ops))) -> ~ In h (targets [] init ops) ->
     (live (wm (exec init ops)) h = true <-> supported (exec init ops) h))
  /\ (forall h, In h (targets [] init ops) -> live (wm (exec init ops)) h = false)).
Check (C08_retraction_removes_exactly : forall ops x, wf_run init ops ->
  live (wm (exec init ops)) x = true ->
  forall h, live (wm (exec init ops)) h = true ->
    (live (wm (next (exec init ops) (Retract x))) h = false <-> h = x \/ ~ supported (next (exec init ops) (Retract x)) h)).
Check (C08_explicit_present_unless_retracted : forall ops h, wf_run init ops ->
  has_explicit (justs (exec init ops)) h = true -> In h (map fst (wm (exec init ops))) ->
  ~ In h (targets [] init ops) -> live (wm (exec init ops)) h = true).
Check (C08_cascade_terminates : forall e x, snd (step e (Retract x)) = false).
