(* allow-axioms:  *)
From RRE Require Import Base.Sx Model.Join Proofs.JoinProofs Proofs.JoinWmProofs.
From Coq Require Import Permutation.
Open Scope Z_scope.
From RRE Require Import Properties.C14.
Check (C14_inner_join_exact_arrivals_partial : forall cond w ops,
  arrivals_only ops ->
  Permutation (concat (run_from cond w init ops)) (ref_join cond w (lefts ops) (rights ops))).
Check (C14_interleaving_independent : forall cond w ops1 ops2,
  arrivals_only ops1 -> arrivals_only ops2 ->
  lefts ops1 = lefts ops2 -> rights ops1 = rights ops2 ->
  Permutation (concat (run_from cond w init ops1)) (concat (run_from cond w init ops2))).
Check (C14_inner_join_exact_until_eviction : forall cond w ops, may_evict w [] ops = false ->
  Permutation (concat (run_from cond w init ops)) (ref_join cond w (lefts ops) (rights ops))).
Check (C14_interleaving_independent_until_eviction : forall cond w ops1 ops2,
  may_evict w [] ops1 = false -> may_evict w [] ops2 = false ->
  lefts ops1 = lefts ops2 -> rights ops1 = rights ops2 ->
  Permutation (concat (run_from cond w init ops1)) (concat (run_from cond w init ops2))).
