(* allow-axioms:  *)
From RRE Require Import Base.Sx Model.Join Proofs.JoinProofs Proofs.JoinWmProofs.
From Coq Require Import Permutation.
Open Scope Z_scope.
From RRE Require Import Model.JoinMgr Proofs.JoinMgrProofs.
From RRE Require Import Properties.C14.
Check (C14_inner_join_exact_arrivals_partial : forall cond w ops,
  arrivals_only ops ->
  Permutation (concat (run_from cond w init ops)) (ref_join cond w (lefts ops) (rights ops))).
Check (C14_interleaving_independent : forall cond w ops1 ops2,
  arrivals_only ops1 -> arrivals_only ops2 ->
  lefts ops1 = lefts ops2 -> rights ops1 = rights ops2 ->
  Permutation (concat (run_from cond w init ops1)) (concat (run_from cond w init ops2))).
Check (C14_inner_join_exact_until_eviction : forall cond w ops, may_evict w [] ops = false ->
  Permutation (concat (run_from cond w init ops)) (ref_join cond w (lefts ops) (rights ops))).
Check (C14_interleaving_independent_until_eviction : forall cond w ops1 ops2,
  may_evict w [] ops1 = false -> may_evict w [] ops2 = false ->
  lefts ops1 = lefts ops2 -> rights ops1 = rights ops2 ->
  Permutation (concat (run_from cond w init ops1)) (concat (run_from cond w init ops2))).
Check (C14_manager_delivers_projection : forall regs evs,
  NoDup (map (fun g => j_id (regjoin g)) regs) -> Forall reg_ok regs -> Forall is_traffic evs ->
  forall g, In g regs ->
  let j := regjoin g in
  delivered (j_id j) (mrun minit (map regop regs ++ evs)) =
  concat (run_from (cond_of (j_kind j)) (j_w j) init (flat_map (jproj j) evs))).
Check (C14_manager_join_exact_until_eviction : forall regs evs,
  NoDup (map (fun g => j_id (regjoin g)) regs) -> Forall reg_ok regs -> Forall is_traffic evs ->
  forall g, In g regs ->
  let j := regjoin g in
  let ops := flat_map (jproj j) evs in
  may_evict (j_w j) [] ops = false ->
  Permutation (delivered (j_id j) (mrun minit (map regop regs ++ evs)))
              (ref_join (cond_of (j_kind j)) (j_w j) (lefts ops) (rights ops))).
