(* allow-axioms:  *)
From RRE Require Import Base.Sx Model.State Proofs.StateProofs.
Open Scope N_scope.
From RRE Require Import Properties.C20.
Check (C20_fresh_id_unused : forall s, ~ In (fresh_id s) (ckpts s)).
Check (C20_ids_distinct : forall ops mx, NoDup (ckpts (exec (init mx) ops))).
Check (C20_earlier_checkpoints_untouched : forall ops s id x,
  NoDup (ckpts s) -> In id (ckpts s) -> fs_get (fs s) id = Some x ->
  (forall k, In id (ckpts (exec s (firstn k ops)))) ->
  fs_get (fs (exec s ops)) id = Some x).
Check (C20_restore_is_snapshot : forall ops0 ops mx k,
  let s0 := exec (init mx) ops0 in
  let '(s1, okc) := step s0 Checkpoint in
  let id := fresh_id s0 in
  In id (ckpts s1) ->
  (forall n, In id (ckpts (exec s1 (firstn n ops)))) ->
  let s2 := exec s1 ops in
  let j := length (issued s0) in
  nth_error (issued s2) j = Some id ->
  get (fst (step s2 (Restore j))) k = get s0 k /\ snd (step s2 (Restore j)) = true).
Check (C20_crash_atomic : forall s c p k,
  Inv s -> 1 <= c <= 5 -> fs_get (fs s) (fresh_id s) = None ->
  let s1 := fst (step s (Crash c p)) in
  let j := length (issued s) in
  let '(s2, okr) := step s1 (Restore j) in
  (okr = false /\ s2 = s1) \/ (okr = true /\ get s2 k = get s k)).
