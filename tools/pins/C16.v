(* allow-axioms:  *)
From RRE Require Import Base.Sx Base.Float Model.Index Proofs.IndexProofs.
Open Scope Z_scope.
From RRE Require Import Properties.C16.
Check (C16_rendering_determines_equality : forall a a' b b',
  dbg_eqb a a' = true -> dbg_eqb b b' = true -> val_eqb a b = val_eqb a' b').
Check (C16_memo_eq_direct : forall calls m, MemoInv m -> run_memo m calls = spec_memo calls).
Check (C16_memo_eq_direct_from_empty : forall calls, run_memo [] calls = spec_memo calls).
