(* allow-axioms:  *)
From RRE Require Import Base.Sx Base.Float Model.Index Proofs.IndexProofs Proofs.IndexAlphaProofs Proofs.IndexBetaProofs.
Open Scope Z_scope.
From RRE Require Import Properties.C16.
Check (C16_rendering_determines_equality : forall a a' b b',
  dbg_eqb a a' = true -> dbg_eqb b b' = true -> val_eqb a b = val_eqb a' b').
Check (C16_alpha_filter_is_scan : forall ops, Forall aop_wf ops -> run_alpha alpha_init ops = spec_alpha [] ops).
Check (C16_equal_values_share_a_key : forall a b, wfv a -> wfv b -> val_eqb a b = true -> key_eqb a b = true).
Check (C16_memo_eq_direct : forall calls m, MemoInv m -> run_memo m calls = spec_memo calls).
Check (C16_memo_eq_direct_from_empty : forall calls, run_memo [] calls = spec_memo calls).
Check (C16_beta_lookup_is_live_facts : forall ops, run_beta [] ops = spec_beta [] ops).
Check (C16_conclusion_index_complete : forall ops n fs goal,
  In (n, fs) (fold_left pstep ops []) -> mem_str (extract_field goal) fs = true ->
  mem_str n (c_find (fold_left cstep ops cinit) goal) = true).
