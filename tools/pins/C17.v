(* allow-axioms:  *)
From RRE Require Import Base.Sx Model.ProofGraph Proofs.ProofGraphProofs Proofs.ProofGraphInvProofs.
Open Scope N_scope.
From RRE Require Import Properties.C17.
Check (C17_reproof_valid : forall g h k ps,
  exists n, find_node (nodes (insert_proof g h k ps)) h = Some n /\ n_valid n = true
            /\ In ps (n_justs n)).
Check (C17_reproof_proven : forall g h k ps, is_proven (insert_proof g h k ps) k = true).
Check (C17_invalidate_only_lowers : forall g h, nodes_le (nodes (invalidate g h)) (nodes g)).
Check (C17_invalidate_self : forall g h n,
  find_node (nodes (invalidate g h)) h = Some n -> n_valid n = false).
Check (C17_graph_invariant : forall ops, wf_run init ops ->
  let g := exec init ops in
  NoDup (map n_h (nodes g))
  /\ (forall x n, find_node (nodes g) x = Some n -> n_valid n = true -> n_justs n <> [])
  /\ (forall x n J q, find_node (nodes g) x = Some n -> In J (n_justs n) -> In q J -> In x (deps_of (deps g) q))
  /\ (forall x n J q, find_node (nodes g) x = Some n -> In J (n_justs n) -> In q J -> bad [] (nodes g) q = false)).
Check (C17_invalidate_exact : forall g h, Inv g -> forall x n, find_node (nodes g) x = Some n ->
  exists n', find_node (nodes (invalidate g h)) x = Some n'
    /\ n_justs n' = filter (cleanb [h] (nodes (invalidate g h))) (n_justs n)
    /\ n_valid n' = n_valid n && negb (N.eqb x h) && nonempty (n_justs n')).
Check (C17_invalidate_minimal : forall g h (C : N -> Prop), Inv g -> C h ->
  (forall q, bad [] (nodes g) q = true -> C q) ->
  (forall x n, find_node (nodes g) x = Some n -> n_justs n <> [] -> (forall J, In J (n_justs n) -> exists q, In q J /\ C q) -> C x) ->
  forall q, bad [h] (nodes (invalidate g h)) q = true -> C q).
Check (C17_invariant_kept : forall g o, Inv g -> op_ok g o -> Inv (fst (step g o))).
