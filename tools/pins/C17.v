(* allow-axioms:  *)
From RRE Require Import Base.Sx Model.ProofGraph Proofs.ProofGraphProofs.
Open Scope N_scope.
From RRE Require Import Properties.C17.
Check (C17_reproof_valid : forall g h k ps,
  exists n, find_node (nodes (insert_proof g h k ps)) h = Some n /\ n_valid n = true
            /\ In ps (n_justs n)).
Check (C17_reproof_proven : forall g h k ps, is_proven (insert_proof g h k ps) k = true).
Check (C17_invalidate_only_lowers : forall g h, nodes_le (nodes (invalidate g h)) (nodes g)).
Check (C17_invalidate_self : forall g h n,
  find_node (nodes (invalidate g h)) h = Some n -> n_valid n = false).
