(* allow-axioms:  *)
From RRE Require Import Base.Sx Base.Float Base.Num Model.ExprShape Proofs.ExprShapeProofs Model.BwExpr Proofs.BwExprProofs.
Open Scope Z_scope.
From RRE Require Import Model.BwSmall Proofs.BwSmallProofs.
From RRE Require Import Properties.C05.
Check (C05_expr_no_panic : forall ws is_num s,
  shape_of ws is_num s <> RPanic /\ shape_of ws is_num s <> ROutOfFuel).
Check (C05_expr_depth_le_length : forall ws (is_num : str -> bool) fuel s, (depth ws fuel s <= S (length s))%nat).
Check (C05_operator_slices_valid : forall (ws : Z -> bool) (is_num : str -> bool) ops e pos,
  ascii_ops ops -> find_operator ws ops e = Some pos ->
  exists l c r, slice e 0 pos = Some l /\ slice e pos (pos + 1) = Some [c] /\ slice e (pos + 1) (blen e) = Some r
                /\ (length l < length e)%nat /\ (length r < length e)%nat).
Check (C05_bw_expression_parser_total : forall is_alnum is_num is_ws s,
  BwExpr.parse is_alnum is_num is_ws s <> BwExpr.Panic /\ BwExpr.parse is_alnum is_num is_ws s <> BwExpr.Fuel).
Check (C05_bw_query_parser_total : forall is_alnum is_num is_ws s,
  BwExpr.query_parse is_alnum is_num is_ws s <> BwExpr.Panic /\ BwExpr.query_parse is_alnum is_num is_ws s <> BwExpr.Fuel).
Check (C05_aggregate_parser_total : forall t, parse_aggregate t <> AggPanic).
Check (C05_nested_parser_total : forall q, nested_parse q <> GPanic /\ has_nested q <> None).
Check (C05_disjunction_parser_total : forall p,
  disj_parse p <> DPanic /\ split_top_level_or p <> None /\ contains_or p <> None).
