(* allow-axioms:  *)
From RRE Require Import Base.Sx Model.Parallel Proofs.ParallelProofs.
From Coq Require Import Permutation.
Open Scope Z_scope.
From RRE Require Import Properties.C19.
Check (C19_chunks_partition : forall (n : nat) (l : list rule), (0 < n)%nat -> concat (chunks n l) = l).
Check (C19_parallel_perm_sequential : forall cfg s orders rs,
  (0 < c_threads cfg)%nat -> orders_ok cfg rs orders (levels rs) ->
  Permutation (execute_parallel cfg s orders rs) (execute_seq s rs)).
Check (C19_counts_equal : forall cfg s orders rs,
  (0 < c_threads cfg)%nat -> orders_ok cfg rs orders (levels rs) ->
  evaluated (execute_parallel cfg s orders rs) = evaluated (execute_seq s rs) /\
  fired (execute_parallel cfg s orders rs) = fired (execute_seq s rs)).
