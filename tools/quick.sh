#!/bin/sh
# dev helper: rebuild everything and run one property's harness + model once, print summary
# usage: tools/quick.sh C17 17 [tier]
set -e
cd /verif/coq && coq_makefile -f _CoqProject -o Makefile >/dev/null && make -j16 2>&1 | grep -v "^Closed under\|^COQ" | head -30
cp model_gen.ml model_gen.mli ../ocaml/ && (cd ../ocaml && dune build ./model_runner.exe 2>&1 | head -20)
cd ../harness && cargo build --offline 2>&1 | grep -E "^error" -A12 | head -60
T=${3:-quick}
rm -rf /verif/.work/q && mkdir -p /verif/.work/q
time ./target/debug/rre-harness gen $1 $T 1 /verif/.work/q
wc -l < /verif/.work/q/cases.txt
time ../ocaml/_build/default/model_runner.exe $2 /verif/.work/q/cases.txt /verif/.work/q/impl.out > /verif/.work/q/model.out
echo "mismatches:"; python3 /verif/tools/qdiff.py
echo "okimpl okmodel:"; cut -f2,3 /verif/.work/q/model.out | sort | uniq -c
sort /verif/.work/q/meta.out | uniq -c | sort -rn | head -20
