#!/usr/bin/env python3
"""dev helper for C04: list failing cases.  usage: c04show.py dir [n] [kind: when|file]"""
import sys, os
sys.path.insert(0, os.path.dirname(__file__))
import sxlib
def s(x): return "".join(chr(c) for c in x)
d=sys.argv[1]; n=int(sys.argv[2]) if len(sys.argv)>2 else 5; kind=sys.argv[3] if len(sys.argv)>3 else "when"
cases=open(d+"/cases.txt").read().split("\n"); impl=open(d+"/impl.out").read().split("\n"); model=[l.split("\t") for l in open(d+"/model.out").read().split("\n") if l]
idx=[i for i,m in enumerate(model) if m[1] in ("0",) and ((kind=="when") == cases[i].startswith("(1 "))]
idx.sort(key=lambda i: len(cases[i]))
print(len(idx),"failing")
for i in idx[:n]:
    c=sxlib.parse(cases[i])
    print("#",i)
    if c[0]==1:
        print(" text:",repr(s(c[1]))); print(" impl :",impl[i][:400]); print(" model:",model[i][0][:400])
    else:
        print(" case:",cases[i][:300]); print(" impl :",impl[i][:600])
