"""Minimal s-expression helpers for tools/check (wire format of Base/Sx.v)."""

def parse(s):
    s = s.strip()
    pos = [0]
    def skip():
        while pos[0] < len(s) and s[pos[0]] in " \t\r\n":
            pos[0] += 1
    def item():
        skip()
        if s[pos[0]] == "(":
            pos[0] += 1
            out = []
            while True:
                skip()
                if s[pos[0]] == ")":
                    pos[0] += 1
                    return out
                out.append(item())
        st = pos[0]
        if s[pos[0]] == "-":
            pos[0] += 1
        while pos[0] < len(s) and s[pos[0]].isdigit():
            pos[0] += 1
        return int(s[st:pos[0]])
    return item()


def show(x):
    if isinstance(x, int):
        return str(x)
    return "(" + " ".join(show(y) for y in x) + ")"


def candidates(x, depth=0, maxdepth=4):
    """Smaller variants: delete one element of some nested list (outer lists first, later elements first),
    never changing the arity of the top-level tuple."""
    if isinstance(x, int):
        return
    if depth > 0:
        n = len(x)
        # delete halves first, then single elements
        if n >= 4:
            yield x[: n // 2]
            yield x[n // 2:]
        for i in range(n - 1, -1, -1):
            yield x[:i] + x[i + 1:]
    if depth < maxdepth:
        for i in range(len(x) - 1, -1, -1):
            if isinstance(x[i], list):
                for c in candidates(x[i], depth + 1, maxdepth):
                    yield x[:i] + [c] + x[i + 1:]


def to_str(x):
    return "".join(chr(c) for c in x)
