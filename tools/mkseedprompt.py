#!/usr/bin/env python3
"""tools/mkseedprompt.py Cxx name : write /tmp/seedprompt-<name>.txt and create the worktree /tmp/wt-<name> (seeded-change protocol)."""
import json, sys, os, glob, subprocess
ROOT = os.path.dirname(os.path.dirname(os.path.abspath(__file__)))
pid, name = sys.argv[1], sys.argv[2]
extra = sys.argv[3] if len(sys.argv) > 3 else ""
p = [json.loads(l) for l in open(os.path.join(ROOT, "properties.jsonl")) if json.loads(l)["id"] == pid][0]
prev = [json.load(open(f))["what"] for f in sorted(glob.glob(os.path.join(ROOT, "seeded", pid + "-*", "meta.json")))]
wt = "/tmp/wt-" + name
if not os.path.exists(wt):
    subprocess.check_call(["git", "-C", "/repo", "worktree", "add", "--detach", wt, "HEAD"], stdout=subprocess.DEVNULL, stderr=subprocess.DEVNULL)
files = ", ".join(p["anchors"]["files"])
txt = f"""You are helping test a verification harness by writing a *seeded bug* for a Rust project. Work ONLY inside the git worktree {wt} (a checkout of the Rust crate `rust-rule-engine`). Do not touch /repo or /verif and do not read anything under /verif. The sandbox has no network; use `cargo ... --offline` (CARGO_NET_OFFLINE=true).

The property that must hold of this code base:

Property {pid}: {p['title']}

Statement: {p['statement']}

Quantifier: {p['quantifier']['text']}

Relevant files: {files}

Find the public API by reading those files. Keep BOTH `cargo test --workspace --no-fail-fast --offline` and `cargo test --offline --all-features --no-fail-fast` green.

Previous exercises already used these changes, so choose a DIFFERENT mechanism: {' | '.join('"' + w + '"' for w in prev)}
{extra}
Your task: make a small, realistic source change (the kind of mistake a maintainer could plausibly make in a refactor or optimisation) to the crate in {wt} that BREAKS this property, while the crate still compiles and the existing test suite still passes (`cd {wt} && cargo test --workspace --no-fail-fast --offline` — all tests must pass with your change; also `cargo test --offline --all-features --no-fail-fast` must pass). The bug must NOT show up under ordinary simple use: it should need something specific to manifest — a particular interleaving, a multi-step sequence of operations, an unusual input or boundary value, or two cooperating sites that each look fine alone. Do not add cfg flags, do not special-case magic values, do not delete functionality wholesale. The source contains a few `#[cfg(rre_verif)]` lines (verification hooks); leave them as they are and do not rely on them.

IMPORTANT: never use `git stash` (the stash is shared by all worktrees of this repository and other agents are working in sibling worktrees). To check the demo without your change use `git apply -R _seed/patch.diff` and re-apply with `git apply _seed/patch.diff`.

Deliverables, all placed in {wt}/_seed/ :
1. patch.diff — `git -C {wt} diff -- src` of your source change only.
2. demo.rs — an integration test file (to be copied to tests/seed_demo.rs; add `#![cfg(feature = "...")]` if it needs a cargo feature) that PASSES on the unmodified code and FAILS with your change. Verify both yourself (`cargo test --offline [--features ...] --test seed_demo`).
3. notes.md — 5-10 lines: what the change is, why it breaks the property, exactly what is needed for it to manifest (the minimal input/history), and the exact commands you ran with their outcomes (existing suite with the change, with tests/seed_demo.rs moved aside; demo with and without the change).

If, while reading the code, you notice behaviour of the UNMODIFIED code that already violates the property, do not use it as your seed; mention it at the end of notes.md and in your summary.

Leave the worktree with your source change APPLIED (so that `git diff -- src` equals _seed/patch.diff) and the demo copied to tests/seed_demo.rs. Report back a 5-line summary.
"""
open("/tmp/seedprompt-%s.txt" % name, "w").write(txt)
print("/tmp/seedprompt-%s.txt" % name, wt)
