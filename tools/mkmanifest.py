#!/usr/bin/env python3
"""Regenerate MANIFEST.json from tools/props.py (claimed properties) + tools/manifest_static.json."""
import json, os, sys
ROOT = os.path.dirname(os.path.dirname(os.path.abspath(__file__)))
sys.path.insert(0, os.path.join(ROOT, "tools"))
import props as P
static = json.load(open(os.path.join(ROOT, "tools", "manifest_static.json")))
allp = [json.loads(l)["id"] for l in open(os.path.join(ROOT, "properties.jsonl"))]
checks = []
for pid in allp:
    if pid not in P.PROPS or P.PROPS[pid].get("disabled"):
        continue
    c = P.PROPS[pid]
    checks.append({
        "property_id": pid,
        "quick_cmd": "tools/check %s --tier quick" % pid,
        "thorough_cmd": "tools/check %s --tier thorough" % pid,
        "evidence_file": "/verif/evidence/%s.json" % pid,
        "replay_cmd_template": "tools/check %s --replay {path}" % pid,
        "engine": "coq-proof+correspondence",
        "level_claimed": {"category": "proof", "text": c["level_text"], "design_ref": c.get("design_ref", "DESIGN.md section 5 " + pid)},
        "level_note": c["level_note"],
        "technique": c.get("technique", "machine-checked proof in Coq 8.16 over an executable Gallina model + differential correspondence check of model vs. implementation with a Coq-defined monitor"),
    })
na = [{"property_id": pid, "reason": static["not_applicable_reasons"].get(pid, "check not built yet in this round; planned (DESIGN.md section 9)")}
      for pid in allp if pid not in [c["property_id"] for c in checks]]
m = {"version": 1, "setup_cmd": "tools/setup", "hooks": static["hooks"], "engines": static["engines"],
     "checks": checks, "notes": static["notes"], "not_applicable": na}
json.dump(m, open(os.path.join(ROOT, "MANIFEST.json"), "w"), indent=1)
print("MANIFEST.json: %d checks, %d not_applicable" % (len(checks), len(na)))
