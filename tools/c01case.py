#!/usr/bin/env python3
"""Build C01 corpus cases (s-expressions of Model/ForwardSpec.v) from a compact Python description."""
import sys, os, struct
sys.path.insert(0, os.path.dirname(__file__))
import sxlib
def S(t): return [ord(c) for c in t]
def lit(x):
    if x is None: return [4]
    if isinstance(x, bool): return [3, 1 if x else 0]
    if isinstance(x, int): return [0, x]
    if isinstance(x, float): return [1, S(repr(x))]
    if isinstance(x, str): return [2, S(x)]
    if isinstance(x, list): return [5, [lit(y) for y in x]]
    raise ValueError(x)
class F:
    def __init__(self, path): self.p = path.split(".")
def ae(x):
    if isinstance(x, F): return [1, [S(p) for p in x.p]]
    if isinstance(x, tuple):
        if x[0] == "par": return [3, ae(x[1])]
        return [2, ord(x[0]), ae(x[1]), ae(x[2])]
    return [0, lit(x)]
OPS = {"==":0, "!=":1, ">":2, ">=":3, "<":4, "<=":5, "contains":6, "startsWith":8, "endsWith":9, "in":11}
def cond(c):
    if c[0] == "and": return [1, cond(c[1]), cond(c[2])]
    if c[0] == "or": return [2, cond(c[1]), cond(c[2])]
    if c[0] == "not": return [3, cond(c[1])]
    return [0, ae(c[0]), OPS[c[1]], ae(c[2])]
def val(x):
    if x is None: return [4]
    if isinstance(x, bool): return [3, 1 if x else 0]
    if isinstance(x, int): return [0, x]
    if isinstance(x, float): return [1, struct.unpack(">Q", struct.pack(">d", x))[0]]
    if isinstance(x, str): return [2, S(x)]
    if isinstance(x, list): return [5, [val(y) for y in x]]
    if isinstance(x, dict): return [6, [[S(k), val(v)] for k, v in x.items()]]
def case(rules, facts):
    return sxlib.show([[[sal, cond(c), [[[S(p) for p in path.split(".")], ae(e)] for path, e in sets]] for sal, c, sets in rules],
                       [[S(k), val(v)] for k, v in facts.items()]])
if __name__ == "__main__":
    base = {"n1": 5, "n2": 3, "s1": "x", "s2": "x", "tags": ["gold"], "User": {"age": 30}}
    out = [
     ("# e2ff44b: parenthesised sub-expression in an assignment (was: Err 'Field (1 - n2) not found', execute aborted)",
      case([(0, (F("n1"), ">", 0), [("out", ("*", F("n1"), ("par", ("-", 1, F("n2")))))])], base)),
     ("# 037343a: negative literal operand (was: Err, execute aborted)",
      case([(0, (F("n1"), ">", 0), [("out", ("*", F("n1"), -1))])], base)),
     ("# 20bd893: '-' inside a string literal of a concatenation (was: Err)",
      case([(0, (F("n1"), ">", 0), [("out", ("+", "a-b", F("s1")))])], base)),
     ("# d2e9583: array contains value (was: never true)",
      case([(0, (F("tags"), "contains", "gold"), [("out", 1)])], base)),
     ("# 5bcadd0: integer ordering above 2^53 (was: false, both sides rounded to the same f64)",
      case([(0, (F("n1"), ">", 9007199254740992), [("out", 1)])], dict(base, n1=9007199254740993))),
     ("# bde165d: exact integer arithmetic above 2^53 (was: 9007199254740992)",
      case([(0, (F("n1"), ">", 0), [("out", ("+", F("n2"), 1))])], dict(base, n2=9007199254740992))),
     ("# b77133a: a right-hand side naming a missing field reads as null (was: compared with Expression(name): not fired)",
      case([(0, (F("zz"), "==", F("User.none")), [("out", 1)])], base)),
     ("# 71658c3: inexact integer quotient is a number (was: Integer(922337203685477632))",
      case([(0, (F("n1"), ">", 0), [("out", ("/", F("n2"), -10))])], dict(base, n2=-9223372036854775808))),
     ("# known finding C01-string-literal-names-a-fact: the literal \"s2\" is read as the field s2",
      case([(0, (F("s1"), "==", "s2"), [("out", 1)])], base)),
    ]
    for c, l in out: print(c); print(l)
