#!/usr/bin/env python3
"""dev helper: show C01 cases where impl/model/monitor disagree. usage: c01show.py dir [n] [filter]"""
import sys, os
sys.path.insert(0, os.path.dirname(__file__))
import sxlib
def s(x): return "".join(chr(c) for c in x)
def lit(l):
    t=l[0]
    if t==0: return str(l[1])
    if t==1: return s(l[1])
    if t==2: return '"%s"'%s(l[1])
    if t==3: return "true" if l[1] else "false"
    if t==4: return "null"
    return "[%s]"%", ".join(lit(x) for x in l[1])
def ae(e):
    t=e[0]
    if t==0: return lit(e[1])
    if t==1: return ".".join(s(p) for p in e[1])
    if t==2: return "%s %s %s"%(ae(e[2]),chr(e[1]),ae(e[3]))
    return "(%s)"%ae(e[1])
OPS={0:"==",1:"!=",2:">",3:">=",4:"<",5:"<=",6:"contains",8:"startsWith",9:"endsWith",11:"in"}
def cond(c):
    t=c[0]
    w=lambda x: "(%s)"%cond(x) if x[0] in (1,2) else cond(x)
    if t==0: return "%s %s %s"%(ae(c[1]),OPS[c[2]],ae(c[3]))
    if t==1: return "%s && %s"%(w(c[1]),w(c[2]))
    if t==2: return "%s || %s"%(w(c[1]),w(c[2]))
    return "!(%s)"%cond(c[1])
def val(v):
    t=v[0]
    if t==0: return str(v[1])
    if t==1:
        import struct; return repr(struct.unpack(">d",struct.pack(">Q",v[1]))[0])+"f"
    if t==2: return '"%s"'%s(v[1])
    if t==3: return "true" if v[1] else "false"
    if t==4: return "null"
    if t==5: return "[%s]"%", ".join(val(x) for x in v[1])
    if t==6: return "{%s}"%", ".join("%s: %s"%(s(k),val(x)) for k,x in v[1])
    if t==7: return "Expr(%s)"%s(v[1])
    return "?"
def show_case(c):
    rules,facts=c
    out=[]
    for i,r in enumerate(rules):
        out.append("R%d sal %d: when %s then %s"%(i,r[0],cond(r[1]),"; ".join("%s = %s"%(".".join(s(p) for p in st[0]),ae(st[1])) for st in r[2])))
    out.append("facts: "+", ".join("%s: %s"%(s(k),val(v)) for k,v in facts))
    return "\n".join(out)
def show_obs(o):
    try:
        parsed,log,res=o
        out=[]
        for i,f in log: out.append("  fired R%d -> %s"%(i,", ".join("%s: %s"%(s(k),val(v)) for k,v in f)))
        out.append("  result %s"%res)
        return "\n".join(out)
    except Exception as e:
        return "  raw "+str(o)[:300]
if __name__=="__main__":
    d=sys.argv[1]; n=int(sys.argv[2]) if len(sys.argv)>2 else 5
    mode=sys.argv[3] if len(sys.argv)>3 else "mism"
    cases=open(d+"/cases.txt").read().split("\n"); impl=open(d+"/impl.out").read().split("\n"); model=[l.split("\t") for l in open(d+"/model.out").read().split("\n") if l]
    idx=[]
    for i,m in enumerate(model):
        if mode=="mism" and m[0]!=impl[i]: idx.append(i)
        if mode=="mon" and m[1]=="0" and m[0]==impl[i]: idx.append(i)
    idx.sort(key=lambda i: len(cases[i]))
    print(len(idx),"cases")
    for i in idx[:n]:
        c=sxlib.parse(cases[i]); print("#",i); print(show_case(c))
        if impl[i].startswith("!"): print(" impl:",impl[i][:300])
        else:
            io=sxlib.parse(impl[i]); mo=sxlib.parse(model[i][0])
            if io[0]!=mo[0]: print(" PARSED differ:\n  impl ",sxlib.show(io[0])[:600],"\n  model",sxlib.show(mo[0])[:600])
            print(" impl:"); print(show_obs(io)); print(" model:"); print(show_obs(mo))
        print(" monitor:",model[i][1])
