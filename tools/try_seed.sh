#!/bin/sh
# usage: tools/try_seed.sh Cxx <patch> : apply a seeded change to /repo, run the property's quick check, undo.
P=$1; PATCH=$2
cd /repo && git diff --quiet || { echo "/repo not clean"; exit 2; }
git -C /repo apply "$PATCH" || { echo "patch does not apply"; exit 2; }
cd /verif && rm -rf replays; ./tools/check $P > /verif/.work/seed_$P.out 2>&1; RC=$?
git -C /repo checkout -- .
echo "rc=$RC"; grep -E "^VIOLATION|^KNOWN|^warning" /verif/.work/seed_$P.out | cut -c1-220 | head -6
for f in $(grep -o "replays/[A-Za-z0-9-]*.case" /verif/.work/seed_$P.out | head -1); do grep "^case:" $f | cut -c1-400; done
