#!/bin/sh
# usage: tools/try_seed.sh Cxx <patch> : apply a seeded change to /repo, run the property's quick check, undo.
P=$1; PATCH=$2
cd /repo && git diff --quiet || { echo "/repo not clean"; exit 2; }
git -C /repo apply "$PATCH" || { echo "patch does not apply"; exit 2; }
cd /verif && rm -rf replays; cp evidence/$P.json /verif/.work/evidence_$P.keep 2>/dev/null
./tools/check $P > /verif/.work/seed_$P.out 2>&1; RC=$?
git -C /repo checkout -- .
# the evidence of a run against a seeded change is not evidence about /repo: put the previous file back
cp /verif/.work/evidence_$P.keep evidence/$P.json 2>/dev/null
echo "rc=$RC"; grep -E "^VIOLATION|^KNOWN|^warning" /verif/.work/seed_$P.out | cut -c1-220 | head -6
for f in $(grep -o "replays/[A-Za-z0-9-]*.case" /verif/.work/seed_$P.out | head -1); do grep "^case:" $f | cut -c1-400; done
