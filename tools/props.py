"""Per-property configuration for tools/check."""

TRUSTED_COMMON = [
    "Coq 8.16.1 kernel (coqc; vm_compute used in Examples and refutation witnesses; native_compute not used)",
    "hand-written Gallina model (coq/Model/*.v) of the Rust items named at the top of each model file",
    "correspondence harness (harness/ Rust crate, tools/check, tools/sxlib.py) and its generators",
    "extraction: Coq Extraction with ExtrOcamlBasic only (Extract Inductive bool/option/unit/list/prod/sumbool/sumor; "
    "no Extract Constant); OCaml 4.13.1, dune 2.9.3, zarith only for decimal <-> Coq Z conversion in ocaml/model_runner.ml",
    "tools/consts.py (source -> coq/Generated/Consts.v)",
]

PROPS = {
    "C01": {
        "num": 1,
        "vo": ["Properties/C01.vo"],
        "harness_timeout": 2400,
        "rule": "random rule sets of 1..4 no-loop rules with distinct saliences over a typed schema (integer, float, string, boolean, array fields; flat names and nested objects to depth 3; absent fields and objects; "
                "occasional wrong-typed values, i64 extremes, NaN/inf/-0.0/subnormal), printed as GRL text and parsed by the real GRLParser: condition trees to depth 6 of &&, ||, !( ) over comparisons "
                "(==,!=,<,<=,>,>= on fields, literals, field references and arithmetic with + - * / %, parentheses and negative literals; contains/startsWith/endsWith on strings; contains on arrays; in [..]; null tests; "
                "1 in 20 leaves compare anything with anything); 1..3 assignments per rule (arithmetic, string concatenation, literals, field copies; targets: existing fields, new fields under existing objects, new "
                "top-level names, paths under absent objects); plus feeding chains (a quarter as many cases): lower-salience rules write, flat or nested, the very field a higher-salience rule tests, so that a rule is false when first "
                "considered and true in a later pass. Every case also runs through plain `execute` on a fresh engine (result and final facts). Observed: the parsed Rule structures, every firing with the complete fact store after it (callback of execute_with_callback), cycle / evaluated / fired counters "
                "or the error. non-trivial = at least one firing String literals containing comparison operators (x>=y, a==b, <, p != q) occur in the odd-string pool; the witness of the repaired defect (operator inside a string literal of an arithmetic condition) is in the corpus.",
        "level_text": "Theorems (Coq, every rule set / fact store / text): (1) evaluate_expression applied to the printed text of ANY well-formed tree applies each operator to the values of exactly its two sub-trees "
                "(precedence, left associativity, parentheses, negative and string literals recovered from the string by the rightmost-operator split with byte offsets); (2) the operator table: wherever the documented "
                "comparison is defined, Operator::evaluate returns it; (3) condition evaluation never panics and always yields a boolean; (4) one consideration: whenever the documented meaning of the when-expression and "
                "of the assignments is defined, the engine fires iff it is true and stores, assignment by assignment, the value each right-hand side has at that moment; (5) whole runs: firing order, facts after each "
                "firing and counters are those the documented semantics defines, for every rule set satisfying the static (decidable, per-atom) conditions rule_ok. The model is compared with the code on every case "
                "(parsed rules, every firing's complete facts, counters), and the Coq-defined documented meaning is evaluated against the implementation's observations; evidence counts the cases inside the theorem's "
                "hypotheses, those only monitored, and runs the documentation leaves undefined.",
        "level_note": "Trusted: Coq kernel; model of engine.rs / types.rs / expression.rs / facts.rs after fixes e2ff44b 037343a 20bd893 d2e9583 5bcadd0 bde165d b77133a 71658c3; SpecFloat binary64; Base/Num.v decimal parsing "
                "(validated against the code on every case); ASCII instances of char::is_alphanumeric; the rexile regexes of the GRL parser are not modelled - their output (the parsed Rule) is observed and compared with "
                "ForwardSpec.compile on every case; harness; extraction. The documented meaning mirrors two lookup orders of the code (exact key before object path inside expressions, the reverse for a condition's "
                "left-hand field); both agree unless a dotted top-level key shadows an object path. Known finding C01-string-literal-names-a-fact (monitor class 2; the theorems treat such a comparison as undefined). Axioms: none.",
        "trusted_base": ["rexile regexes of grl.rs (rule/when-then/condition splitting) are not modelled: their result is observed (the parsed Rule) and compared with ForwardSpec.compile on every case"],
        "assumptions": ["custom functions, plugins, method calls, retract, accumulate/exists/forall patterns are outside the typed core", "wall-clock timeout disabled; max_cycles default"],
    },
    "C04": {
        "num": 4,
        "vo": ["Properties/C04.vo"],
        "harness_timeout": 2400,
        "rule": "Splitting layer: 3000 (quick) / 30000 (thorough) then clauses (assignments, appends, custom calls, literals in both quote characters full of separators, the other quote, '=', '+=', parentheses, multi-byte characters; blanks incl. U+00A0), argument lists and raw quote / separator soups (unterminated literals included) through parse_then_clause, split_arguments and find_outside_strings with five patterns. rule files generated from the documented grammar: 0..8 rules; quoted (incl. non-ASCII, operators) and bare names, optional description strings containing attribute keywords; every attribute in every "
                "order (salience over the i32 range incl. negatives and extremes, no-loop / lock-on-active with and without `true`, agenda-group, activation-group incl. names such as \"no-loop\" and \"salience 7\", "
                "date-effective / date-expires); condition trees to depth 5 over the typed core of C01 with redundant parentheses; literals of every type incl. strings with GRL metacharacters (; && || { } ( ) = , // then "
                "when rule salience, quotes of the other kind, non-ASCII) in a third of the files, and strings with runs of blanks, leading / trailing blanks, tabs and non-ASCII spaces everywhere; action forms: assignment (literal, arithmetic, concatenation, field copy, array), +=, Log, retract($X), ActivateAgendaGroup, "
                "ScheduleRule (rule names with commas and parentheses), CompleteWorkflow, custom function calls and `$Object.method(...)` calls with 0..4 arguments (half of them with string arguments made of apostrophes and commas); layout: blanks, tabs, line breaks between any two tokens, comment lines and trailing comments anywhere (1 file in 12 with comments "
                "containing a closing brace or a rule header). Second stream: bare when clauses (depth to 6, metacharacter strings in half of them, arbitrary blanks and redundant parentheses) through the hook "
                "verif_parse_when_clause, compared with the Coq model of the condition-tree parser AND with the written tree. Observed per rule: name, salience, flags, groups, dates, condition tree, action list. "
                "non-trivial = at least one rule Negated negations are generated and printed side by side (!!(..), ! !(..)) as well as parenthesised.",
        "level_text": "The splitting layer below the regular expressions is modelled and proved (Model/GrlSplit.v): string literals in either quote character are opaque to the statement split of parse_then_clause, to split_arguments and to find_outside_strings, whatever they contain except their own quote; statements joined by ';' and arguments joined by ',' come back piece for piece; the slices around `=` / `+=` are on character boundaries for every statement. The rule-block and attribute braces are the first `}` / `{` outside literals (C04_rule_block_ends_at_the_written_brace, C04_attributes_end_at_the_written_brace) and a literal is opaque to the search for `then`; conditions the scan passes, then `then` between whitespace, then actions, split exactly at the written `then` (C04_split_at_the_written_then; split_when_then is modelled). The four functions are compared with the model on arbitrary texts through hooks (exact prediction). Theorems (Coq): the condition-tree parser recovers the written tree - for EVERY tree of comparisons joined by &&, || and !( ), any depth, any number of redundant parenthesis pairs, leaves being neutral texts "
                "(proved for ordinary text optionally followed by a string literal with arbitrary content), parse_when (print tree) = tree: && binds tighter than ||, parentheses and ! respected. Lemmas for every text: string literals are opaque to the condition splitter (whatever stands between two equal quote characters never separates conditions, at any depth, for any continuation); "
                "parentheses protect (a text that may split at its own top level does not split once parenthesised); a top-level && / || between two non-splitting texts separates exactly there into exactly the two trimmed "
                "texts; such texts compose. The model of parse_when_clause / split_logical_operator / the single-comparison pattern is compared with the code on every generated clause; the Coq-defined expectation exp_rule "
                "(what was written, independent of layout by construction) is compared with the parser's output on every generated file.",
        "level_note": "Partial: the front end that carves a file into rules and a rule into header / when / then (two regular expressions of rexile for the rule header and the attributes, quote-aware scans for the block, the braces and the `then`) is not modelled - its result is observed and compared with exp_rule; Known finding (monitor class 5): the `$Obj.method(args)` action form comes back as the custom action `method(args)` (the method-call pattern never matches; class 5 only when the observation is exactly the expectation with that substitution). The former findings about braces in string literals / descriptions, `then` in a string literal and braces or rule headers in comments were repaired (96b5934, fded141, 631953a) and are checked like everything else. Trusted: Coq kernel; model of grl.rs after fixes 804c5fd ee6c06e b8f8cd8 f796657 389caa3 7515c16 fbc30e7 751cd5b 4ea3eb2 601e5f7 94337f6 96b5934 (comments removed before the rule split; former class 4) fded141 (quote-aware when / then split; former class 3) 631953a (rule blocks and headers end at braces outside string literals; former classes 2 and 6) 5f13a73 (documented block comments) 262b6e2 (arithmetic left-hand sides with parentheses or a literal first are test conditions) e44bc95 (only matching outer parentheses are dropped from a single condition); hooks 26bcb2e de17ceb 23605b3; harness; extraction. Axioms: none.",
        "trusted_base": ["rexile 0.5.8 regular expressions of grl.rs: not modelled"],
        "assumptions": ["string literals contain no quote character of their own kind (GRL has no escape sequences)", "dates in the form YYYY-MM-DD"],
    },
    "C09": {
        "num": 9,
        "vo": ["Properties/C09.vo"],
        "harness_timeout": 2400,
        "rule": "random Horn-style rule sets built with the Rule API: 1..8 rules over 3..8 fields (booleans, integers, strings; flat and Obj.x names), conditions = And/Or trees (half of the sets conjunctive) of field == value / >= / < leaves incl. "
                "dead ends (values nobody concludes), actions = 1..2 literal assignments; two thirds of the sets assign every field in at most one rule with its designated value (deterministic, monotone), the others contain "
                "wrong-value conclusions and competing rules; shared sub-goals and cyclic dependencies arise freely; initial facts = a random subset of designated values (rarely a wrong value); one atomic goal per case; "
                "max_depth in {0,1,2,3,6,10} (at most 4 / 3 for non-deterministic sets of more than 3 / 5 rules: the search is exponential in the bound on cyclic sets); strategies depth-first (3/5), breadth-first, iterative; max_solutions 1 and 3; plus a structured family (a third as many cases): a goal needing a conjunction of sub-goals, each with a chain of rules down to a base fact, decoy rules listed first that reach a shared "
                "sub-goal through a longer path, max_depth = exact height needed -2..+1. Observed per query: provable, the caller's facts before and after. non-trivial = provable A quarter of the cases use string values that contain operator characters (a goal `F == \"a>=b\"`).",
        "level_text": "Theorems (Coq, every rule set / goal / depth / facts): whenever the depth-first search with execution - at the root or at any sub-goal - reports a goal proven, the goal comparison holds in the facts "
                "it hands back; the same for iterative deepening; and for Horn-style sets every result stays within EVERY closed set of atoms that covers the facts asked on - a proven goal is satisfied by an atom of the forward closure. BOUNDED COMPLETENESS is a theorem too (Proofs/BackwardCompleteProofs.v, C09_bounded_completeness_partial): "
                "for every Horn instance of any size - conjunctive conditions of positive comparisons against boolean / string / null literals, integer literals that survive the code's re-parsing through f64 (a decidable condition, true below 2^53) on integer-valued fields, float literals on non-integer fields; every field single-valued over facts and conclusions - a goal that holds at level h <= max_depth of the bounded "
                "forward derivation is reported provable by the depth-first search, whatever decoys, dead ends, shared sub-goals and cycles there are (induction on the level; failed candidates hand the facts on unchanged, successful sub-proofs only extend them; the "
                "recursion fuel of the model provably suffices). The model of the search (candidate selection, recursive proof of unmet conditions, re-execution, rollback of failed candidates) predicts the verdict of "
                "every single depth-first and iterative query (and of whole histories on deterministic rule sets) and is compared with the code; the Coq-defined monitor checks on the implementation's observations, for all three strategies: provable -> "
                "goal true in the facts handed back AND in the many-valued forward closure of the rules on the facts asked on; (depth-first, conjunctive, monotone instances) goal at level max_depth of the bounded "
                "forward derivation -> provable; verdict = verdict of a fresh search on the same facts.",
        "level_note": "Partial: the completeness theorem excludes Or and mixed integer / float comparisons in rule conditions (monitored only; the evidence counts, under monitored_outside_theorem_hypotheses, the cases whose rule set and initial facts do not meet the theorem's hypotheses - a boolean transcription of them in Backward.thm_hyps_b); breadth-first search depends on hash-set iteration order and is monitored only. Trusted: Coq kernel; model of "
                "search.rs / rule_executor.rs / condition_evaluator.rs / conclusion_index.rs after fixes 692df85 047f79f ab15463 dfacdc7 fe5aaf4 f980bee (Horn core: field-op-literal conditions, literal assignments, flat fact "
                "names; no negated goals, TMS/RETE attachment, functions or multifield conditions); harness; extraction. Axioms: none.",
        "trusted_base": ["std HashSet iteration order of the root candidate set: the model predicts verdicts only where they cannot depend on it"],
        "assumptions": ["rules assign literals (Horn-style); goals are atomic `field op literal`"],
    },
    "C11": {
        "num": 11,
        "vo": ["Properties/C11.vo"],
        "harness_timeout": 2400,
        "rule": "histories of 2..9 operations on ONE BackwardEngine (memoisation enabled) and one caller's fact store: queries (atomic goals), assertions / changes (set a field, in non-deterministic sets also to a wrong "
                "value) and removals of facts in between, often the same query before and after a change, incl. paired changes (two fields swap their values or both get the same new value); rule sets, strategies and depths as in C09. sibling queries (the same string field and the same word operator contains / starts_with / ends_with with two different literals, the failing one first); "
                "aggregate queries that fail half-way (op (3)) in between. Observed per query: provable, facts before and after, and a flag computed by the harness: a freshly built engine gives the same verdict on a copy of the facts "
                "(not for breadth-first) and the engine's public configuration is still the one it was built with. non-trivial = at least one provable query",
        "level_text": "Theorem (Coq): with the memo table of BackwardEngine (keyed by the query and the canonical encoding of the facts, only failures answered from it), whatever was asked before on whatever facts, the "
                "verdict of a query is the verdict a fresh search gives on the facts passed in, and the table stays sound (invariant by induction over the history); a fresh engine's table is sound. "
                "The premise of that theorem is discharged (Proofs/BackwardEquivProofs.v): the search reads a store only through its lookup function (same lookups => same verdict, by simulation of the whole "
                "mutual search), and for stores with one entry per key holding integers / strings / booleans / null the canonical sorted encoding determines the lookup function; hence C11_history_is_fresh: "
                "along ANY history of queries, each on its own store, every verdict is the fresh verdict, with no hypothesis beyond the shape of the stores. The engine model "
                "with its table is compared with the code query by query on deterministic rule sets, and the monitor compares every observed verdict with a fresh model search on the observed facts.",
        "level_note": "NOT-prefixed queries are not generated (negation as failure is not modelled); the number of solutions is not compared (two fresh engines disagree on it: hash-set order). The premise-free theorem covers stores of integers, strings, booleans and null (what the harness generates); for floats / arrays / objects the general theorem keeps the premise that the "
                "sorted encoding determines the verdict. RETE-attached queries (proof graph, TMS retractions) are outside the model. Trusted: as C09 plus the memo key of repair dfacdc7. Axioms: none.",
        "trusted_base": [],
        "assumptions": ["no RETE engine attached to the queries"],
    },
    "C02": {
        "num": 2,
        "vo": ["Properties/C02.vo"],
        "rule": "random rule sets of 1..7 rules built with the Rule builder: saliences incl. ties, negatives and i32 extremes, enable flags, no-loop, lock-on-active, 3 agenda groups, 2 activation groups, "
                "date-effective/expires around the evaluation timestamps, 1..2 integer comparisons per condition, 0..2 actions (assign, add, ActivateAgendaGroup); histories of 1..8 engine calls "
                "(execute_at_time at timestamps 0..9, set/pop/clear focus, engine.activate_agenda_group, reset_no_loop_tracking, enable/disable) with max_cycles 1,2,3,10; observed per execute: cycle count, fired count, the firing "
                "sequence (each rule appends its id to a trace fact), final fields, focused group; non-trivial = at least one firing",
        "level_text": "Over whole histories of engine calls (several executes with any number of cycles, focus calls, activate_agenda_group, enabling / disabling, removing and adding rules) a no-loop rule fires at most once until reset_no_loop_tracking, and not at all once recorded (C02_no_loop_once_per_history, C02_no_loop_once_per_execute). Proved for every condition language and action semantics: the rule vector is kept in descending salience with insertion order among equals; the firings of a pass are a subsequence of it; "
                "every firing passed every gate at the moment it was considered (enabled, focused group, date window, lock-on-active, activation group, no-loop) with a true condition; a no-loop rule fires at most once "
                "per pass and never while recorded; at most one rule of an activation group fires per pass; a lock-on-active rule is blocked after firing until its own group is activated again. The monitor is equality "
                "of the implementation's observations with this proved model on a concrete instance (integer comparisons; assign/add/ActivateAgendaGroup actions).",
        "level_note": "Trusted: Coq kernel; model of execute_at_time/AgendaManager/ActivationGroupManager/workflow queue/KB order after fixes b4b5b52 and 1106f91; the concrete instance EngineConc; harness; extraction. "
                "no_loop across several execute calls is a theorem over whole histories of the concrete instance and over the cycles of one execute for every instance. Axioms: none.",
        "trusted_base": [],
        "assumptions": ["wall-clock timeout disabled; custom functions/handlers total (outside the typed core)"],
    },
    "C03": {
        "num": 3,
        "vo": ["Properties/C03.vo"],
        "rule": "random self-triggering and mutually triggering rule sets (1..5 rules, mostly without no-loop: counters, toggles, assignments feeding each other's conditions) with max_cycles uniformly in 0..=64 and the "
                "timeout disabled; observed: cycle count, fired count, firing sequence, final fields; non-trivial = at least one firing A third of the self-triggering rule sets carry agenda groups and ActivateAgendaGroup actions (the focus moves in the middle of a run).",
        "level_text": "Proved for every condition language and action semantics (total functions): execute makes at most max_cycles passes, the reported cycle count equals the number of passes and is <= max_cycles, the "
                "fired count equals the number of firings, every pass but the last fired something and the last is quiet unless the bound was reached, and after a quiet last pass no still-eligible rule has a true condition "
                "on the final facts (fixpoint). Termination is structural recursion on cycles and rules. The monitor is equality of the implementation's observations with this proved model on the concrete instance.",
        "level_note": "Trusted: Coq kernel; model of execute_at_time (same as C02); termination of the concrete condition/expression evaluators is C05's subject; custom functions that never return are outside the model. Axioms: none.",
        "trusted_base": [],
        "assumptions": ["timeout: None (the property's quantifier)"],
    },
    "C05": {
        "num": 5,
        "single_case_timeout": 150,
        "vo": ["Properties/C05.vo"],
        "harness_timeout": 3000,
        "rule": "14 entry points (evaluate_expression on an identifier alphabet with exact prediction; evaluate_expression, GRLParser::parse_rules / parse_with_modules, QueryParser, ExpressionParser, GRLQueryParser::parse / parse_queries, "
                "parse_stream_pattern / parse_stream_join_pattern, parse_aggregate_query, DisjunctionParser, NestedQueryParser::parse / has_nested on arbitrary text) x streams: random strings over the identifier alphabet; every "
                "single insertion of 12 multi-byte characters (incl. 6 whose case mapping changes the UTF-8 length: U+0130, U+212A, U+023A, U+1E9E, U+0390, U+FB01) into 5 expressions; every seed x blank position x entry point with such a character directly before the blank, and with it earlier plus a multi-byte character after the following token; 19 valid seed texts (incl. string literals with escaped quotes / backslashes, a window duration at the u64 limit) and their mutants (truncate, duplicate a segment, insert a multi-byte character / a token, splice with another seed, delete, "
                "replace by a delimiter, replace a digit run by one of 8 limit numbers); EVERY prefix of every seed (3 entry points each; thorough: all), every seed x digit run x limit number x entry point; token soups of 48 GRL/query tokens; lossily decoded raw bytes; prefix chains and nestings (!, (, [, {, NOT, -, !(, exists() of depth 33, 500 and up to 4 KiB. The batch runs in a child "
                "process: a panic is caught per case, a stack overflow/abort or 120 s without progress marks the case and the run continues. non-trivial = every case Expression-parser stream: 5000 (quick) / 30000 (thorough) token strings over the query alphabet plus every prefix and suffix of four queries, AST compared with the model. Evaluator chains: 8 (quick) / 60 (thorough) random chains and as many plain sums of products of 18..40 terms over missing identifiers (a failing operand must be reported at once).",
        "level_text": "Theorems (Proofs/BwSmallProofs.v) for parse_aggregate_query / parse_function_call, NestedQueryParser::parse / has_nested and DisjunctionParser::parse / contains_or / split_top_level_or, for EVERY text: the byte offsets handed to slices are the offsets of a decomposition of the text (str::find / rfind of one-byte characters and of the keyword), Vec<char> indices stay below the length under the guards of the code, the loops advance. Theorem for the expression evaluator, for EVERY string: no slice off a character boundary or out of range, termination with recursion depth <= length+1 (every slice of the code carries its byte offsets in the "
                "model, a bad slice is the value RPanic). On the identifier alphabet the model's exact outcome (first failing leaf) is compared with the code. All other entry points are exercised by the fuzzing streams under "
                "the crash/hang watchdog; the verdict per case is the Coq-defined ExprShape.ok (returned a value or an error). Second modelled parser (Model/BwExpr.v): the backward-chaining ExpressionParser (recursive descent over a Vec<char> with an index; reached through ExpressionParser::parse, QueryParser and GRLQuery) - theorem for EVERY string and every character classification: no index / slice of the parser is out of range and the mutual recursion with its two loops ends within depth 6*length+8; on a query alphabet (identifiers, all literal kinds with escapes, signed / dotted numbers, every operator, parentheses, negation, variables, non-ASCII letters / digits / blanks / symbols) the model predicts the AST or the error exactly and is compared with the code; QueryParser::parse (empty query, trim, optional leading NOT) is modelled on top of it with the same theorem and comparison.",
        "level_note": "Partial: evaluate_expression, the backward-chaining ExpressionParser / QueryParser, parse_aggregate_query, NestedQueryParser and DisjunctionParser are modelled and proved (no bad slice, no bad index, termination, for every text; the last three also predicted exactly, result for result, by Model/BwSmall.v); the other GRL / query / stream parsers depend on the third-party crates rexile and nom, whose time and stack behaviour is not expressible in Gallina and is "
                "covered by the watchdog harness only. Known finding C05-rexile-multibyte-before-keyword (monitor class 2). Trusted: Coq kernel; model of expression.rs after fixes 32df0c7/aee5bb9; char::is_whitespace and "
                "str::parse as parameters; harness; extraction. Axioms: none.",
        "trusted_base": ["rexile 0.5.8 and nom 8 (third-party parsers): not modelled"],
        "assumptions": ["inputs up to 4 KiB as in the quantifier; 120 s watchdog per case"],
    },
    "C06": {
        "num": 6,
        "vo": ["Properties/C06.vo"],
        "harness_timeout": 2400,
        "rule": "GRL-loader glue: every inert rule set is also written as GRL text, loaded through GrlReteLoader::load_from_string into a second engine that receives the same operations; every fire_all of the two engines must fire the same rules (a disagreement aborts the case and is reported). random histories of 3..12 insert / update / retract / fire_all / reset ops over up to 6 facts of 3 types and 2..6 single-type rules (And/Or/Not trees of integer comparisons over 3 fields, "
                "possibly missing); even cases: actions with effects (assign a field, retract the matched fact), distinct priorities and at most one live fact per type (the outcome is then independent of HashSet "
                "iteration order) - firings compared in order with the matched handle and the matched fact's contents as seen by the action; odd cases: inert actions, several facts per type, salience ties - "
                "fired rule names compared as a multiset. After every op the three working-memory views are dumped. Systematic stream: 3..5 (thorough 6) facts over one or two types retracted in EVERY order with an update or fire_all squeezed in. Each case runs in a child process with a 60 s watchdog. non-trivial = at least one firing",
        "level_text": "Proved on the model for every engine state: every firing produced by fire_all is for a rule whose condition is true of the matched fact's contents at that moment (and only live facts are "
                "matched); handles are issued in increasing order. The property's sentences - firings only for live satisfying facts, retracted facts never fire, exactly-once firing of no-loop rules under inert actions, "
                "agreement of the three working-memory views, handle freshness - are the Coq-defined monitor Incremental.ok evaluated on the implementation's own observations (it does not use the propagation model), "
                "and the model is compared with the code per op. Exactly-once is now a theorem too (Proofs/IncrementalOnceProofs.v): for rule sets of no-loop rules with inert actions and distinct names and every history of insert / update / retract / fire_all (no reset) whose fire_alls fit the iteration bound read from the source (rules + pending activations <= max_iterations), a fire_all fires no rule twice and fires exactly the rules not fired before that some live fact satisfies at that moment (first fire_all: exactly the satisfied rules), working memory unchanged - proved through the agenda model (pop loop, stale activations skipped, re-propagation after each firing) with a potential argument for the bound. Added theorems (Proofs/IncrementalViewsProofs.v): in every reachable state of the model the three working-memory views agree (in the full listing iff found by its handle iff listed under its type, and then not retracted), a retracted fact is in none of them, handles are pairwise distinct and below the next handle (never reused) - invariant through insert / update / retract / fire_all (with its action effects) / reset.",
        "level_note": "Trusted: Coq kernel; model of propagation.rs/working_memory.rs after fixes a666833 and 26cddab; HashSet iteration orders modelled as ascending (histories are generated so that outcomes do not depend on them); "
                "custom action closures mirror what GrlReteLoader actions do to working memory; harness; extraction. Multi-type joins, accumulate, multifield nodes are outside 'single-type rule sets'. Axioms: none.",
        "trusted_base": ["std HashSet/HashMap iteration order is unspecified: generated histories avoid order-dependent outcomes"],
        "assumptions": ["rules are single-type; facts carry integer fields"],
    },
    "C07": {
        "num": 7,
        "vo": ["Properties/C07.vo"],
        "harness_timeout": 1500,
        "rule": "agenda: random histories of 3..14 ops (add_activation with saliences incl. ties and i32 extremes, 4 rule names, 2 activation groups, 3 agenda groups, no-loop / lock-on-active / auto-focus flags; "
                "get_next_activation usually followed by mark_rule_fired; set_focus; reset) on the real AdvancedAgenda with strictly increasing creation instants; fire_all: 240 (quick) / 3000 (thorough) rule sets of 1..5 "
                "constant-condition rules with and without no-loop, priorities incl. i32::MIN/MAX, on ReteUlEngine, TypedReteUlEngine and IncrementalEngine, each run in a child process under a 30 s watchdog; "
                "non-trivial = at least one Next (agenda) / any loop case Engine code 3 of the fire_all stream is the incremental engine with every action issuing ActivateAgendaGroup (the focus moves to an empty group and falls back): the firings must be those of engine 2 and the call must return (10 s watchdog per case). tools/consts.py reads the three iteration bounds from the source and refuses a loop whose counter is assigned more than once.",
        "level_text": "Proved for every agenda state with distinct creation times: get_next_activation returns an eligible activation (no-loop, activation-group and lock filters) that is greatest for (salience desc, "
                "earlier created) in its group, the pop loop equals 'best eligible + drop everything above', and every history of the five operations is observed exactly as the specification says; over whole histories (Proofs/ReteAgendaHistoryProofs.v, no side condition) an activation returned by get_next_activation is never a no-loop rule marked fired since the last reset, never a member of an activation group of which a member was marked fired since the last reset, never a lock-on-active activation of a group locked since the last reset; proved for every rule set: "
                "each of the three fire_all loops ends within its iteration bound, the bounds being read from the current source (a missing bound makes the theorem fail). The harness confirms model = code per op and per run, with a hang watchdog.",
        "level_note": "Trusted: Coq kernel; model of rete/agenda.rs and of the loop structure of the three fire_all functions over constant-condition rules (after fixes 748fa6c, 024886f); std BinaryHeap::pop returns an Ord-maximum; "
                "Instant::now strictly increasing between activations (enforced by the harness); consts.py; harness; extraction. Ruleflow groups and conflict strategies other than Salience are not modelled. Axioms: none.",
        "trusted_base": ["std::collections::BinaryHeap::pop returns a maximum w.r.t. Ord", "Instant::now is strictly increasing between two Activation::new calls"],
        "assumptions": ["activations are created in sequence (distinct creation instants)"],
    },
    "C08": {
        "num": 8,
        "vo": ["Properties/C08.vo"],
        "rule": "exhaustive: every history with premises live when recorded, depth<=5 (quick) / <=6 (thorough) over <=4 handles with premise "
                "subsets of size<=2 (insert_explicit, insert_logical, extra justification, retract of every issued handle); random: 3..10 ops "
                "over <=7 facts incl. duplicated premises and circular support; non-trivial = at least one logical fact (label not 'trivial'); "
                "labels cascadeN = retractions that removed more than the target Deep systematic stream: every valid sequence of up to 4 (thorough 5) add-justification / retract-premise operations around one derived fact with three explicit premises.",
        "level_text": "Proved for every justification graph and recursion depth: the cascade never takes a fact with an explicit justification, explicit "
                "facts change liveness only by their own retraction, only retractions remove facts. The full statement is a theorem (Proofs/TmsSupportProofs.v, invariant Good "
                "kept by every operation): after ANY well-formed history of any length, a fact that was issued and not itself retracted is present exactly when one of its justifications is explicit or has all "
                "its premises present; retracted targets stay absent; one retraction removes its target and exactly the facts it leaves unsupported (the cascade's final retracted set is closed under loss of "
                "support: Post / Post_stable / Post_trans); explicit facts are present unless retracted; the cascade's recursion bound is never reached (measure: conclusions not yet retracted), so the model's "
                "retraction IS the code's unbounded recursion. The Coq-defined executable specification Tms.ok (least fixpoint by iteration) is still evaluated on every observation of the real IncrementalEngine, "
                "and the faithful model of tms.rs is compared with the code per op.",
        "level_note": "Trusted: Coq kernel; model of tms.rs/propagation.rs/working_memory.rs (index maps abstracted to one justification list); harness; extraction. "
                "The theorem is about the faithful model (handles never reused, one justification list); that the model is the code is the correspondence check. Axioms: none.",
        "trusted_base": [],
        "assumptions": ["premises are live when a justification is recorded and extra justifications go to present logical facts (the property's quantifier); other histories are compared model-vs-code only"],
    },
    "C17": {
        "num": 17,
        "vo": ["Properties/C17.vo"],
        "rule": "exhaustive: all sequences of insert_proof (premise subsets of size<=2 among never-invalidated handles, any insertion order) / "
                "invalidate_handle up to depth 4 over 3 handles (quick; thorough adds depth 4 over 4 and depth 5 over 3), plus random sequences of "
                "2..9 ops over 5 handles incl. self-premises, key aliasing and is_proven queries; non-trivial = at least one invalidation after two insertions",
        "level_text": "Proved for every graph and propagation depth: re-proof makes a handle valid and proven; an invalidation only ever lowers validity and "
                "shrinks justification lists; a directly invalidated handle is invalid. The full statement is a theorem (Proofs/ProofGraphInvProofs.v): after every well-formed history "
                "the graph satisfies Inv (unique handles, a valid proof keeps a justification, every premise is in the dependency index, NO remaining justification names an invalid cached proof); one "
                "invalidation is EXACT (each proof keeps exactly the justifications without a dead premise, and is valid iff it was, is not the target and keeps one) and MINIMAL (the dead set is contained "
                "in every set that contains the target and the old dead and is closed under loss of support - the least fixpoint, so cycles do not kill more than necessary); the fuel of the recursive "
                "propagation (total number of justifications + 1) provably suffices. The order-free executable specification ProofGraph.ok is still evaluated on every "
                "observation of the real ProofGraph (validity + justification count of every handle and is_proven of every key after every op) and compared with the model.",
        "level_note": "Trusted: Coq kernel; model of proof_graph.rs after fix ec1ef45 (HashSet iteration order modelled as insertion order; per-node dependents, stats, "
                "bindings not modelled); harness; extraction. The theorems are about the faithful model; that the model is the code is the correspondence check. Axioms: none.",
        "trusted_base": [],
        "assumptions": ["a handle that has been invalidated (directly or by losing every justification) is not used as a premise of a later insertion (the property's quantifier); later ops of such histories are compared model-vs-code only"],
    },
    "C10": {
        "num": 10,
        "vo": ["Properties/C10.vo"],
        "rule": "store part: exhaustive all sequences of length<=5 (quick; <=6 thorough) over a 10-op alphabet (begin, commit, rollback, set/remove on 2 keys, "
                "object set, two set_nested) from two initial stores (sequences of length>=4 start with begin), plus random sequences of 2..10 ops over 3 keys with "
                "int/object values; non-trivial = at least one effective rollback (label not 'trivial'); nested+commit = a commit with >=2 open frames. "
                "Query part: 6000 (quick) backward-chaining cases as in C09/C11 (a third of them histories) whose failed proof attempts derive intermediate facts; observed: provable, the caller's facts before and after each query",
        "level_text": "Theorem for every initial store and every operation sequence (unbounded length, nesting and keys): the per-key undo log of Facts is observationally "
                "equal to a stack of whole-store snapshots (values and fact types of every key, result codes), proved by a simulation invariant; corollary: rollback restores the "
                "store of the matching begin across arbitrary nested begin/commit/rollback. The model is tied to facts.rs by per-op differential comparison and the Coq monitor runs on the implementation's observations. "
                "Query part: theorem - a depth-first search (Model/Backward.v) that does not prove its goal hands back exactly the facts it was given, at every recursion level; monitored on the code for all three "
                "strategies: not provable -> facts after = facts before.",
        "level_note": "Trusted: Coq kernel; model of facts.rs after fix c0a4186 (values restricted to integers and one-level objects; paths k and k.f); harness; extraction. "
                "The query half of C10 (a failed backward-chaining query leaves the facts untouched) is checked by the C09 harness suite when present. Axioms: none.",
        "trusted_base": [],
        "assumptions": ["add_value/clear/merge/restore bypass the undo log and are outside the property's operation set (add_value is used only to build the initial store)"],
    },
    "C18": {
        "num": 18,
        "vo": ["Properties/C18.vo"],
        "rule": "exhaustive: all sequences of length<=2, and all length-3 continuations after creating A,B (thorough: length-4 after A,B,C), over an alphabet of create/delete/"
                "export-all/add-rule/import(to,from) on 3 user modules; re-export chains (two re-exporting imports with independent patterns into one module, a third module importing it; 1500 quick); random sequences of 3..7 ops over 4 module names (incl. MAIN), 3 rule names, 6 patterns "
                "(*, prefix, suffix, exact, ?ALL), Specific exports, all import types, re-exports; non-trivial = at least one accepted import",
        "level_text": "Proved for every operation sequence: a refused operation changes nothing; self-imports are refused; every declared import names an existing module "
                "(invariant through create/delete/export/add-rule/import); hence visibility queries on existing modules never fail, and is_rule_visible equals the declarative "
                "'owns or imports with matching pattern from an exporting module'. Acyclicity (Proofs/ModuleAcyclicProofs.v): after every operation sequence no module reaches itself through declared "
                "imports; the separate import_graph is exactly the set of declared imports in every reachable state; the fuelled breadth-first search of detect_cycle is a correct reachability test on "
                "any graph (the fuel S(graph_size) provably never runs out: a queue-plus-unvisited measure), so an import is refused exactly when a module is missing or it would close a cycle. "
                "Listing (Proofs/ModuleListingProofs.v, after repair 8e1d5ba): in every reachable state get_visible_rules of an existing module never fails and lists exactly the rules that exist in some module and that is_rule_visible reports visible (own, exported by an imported module, or re-exported by it). "
                "The Coq-defined executable specification Module.ok is evaluated on the real ModuleManager after every op (visibility matrix, listing, acyclicity, every acceptance/refusal).",
        "level_note": "Trusted: Coq kernel; model of module.rs after the delete_module fix (rules only; templates/salience/focus not modelled); harness; extraction. 'exports' follows the code's "
                "definition (own rule matching the export list, or any name matching a re-export pattern). Former known finding C18-listing-misses-reexports repaired (8e1d5ba). Axioms: none.",
        "trusted_base": [],
        "assumptions": ["module and rule names are arbitrary strings; patterns as implemented by pattern_matches"],
    },
    "C12": {
        "num": 12,
        "vo": ["Properties/C12.vo"],
        "rule": "exhaustive: every timestamp sequence of length<=5 over 5 values (quick; <=6 over 6 thorough) in every order, rotating durations 1..3 and caps 1,2,100, fed to "
                "TimeWindow::record (sliding), WindowManager (tumbling, max_windows 1,2,100) and (every 4th) WindowedStream; random: 1..12 events in order/reversed/shuffled over domains "
                "6..2^40, durations 1..1000, caps 1..1000, field values missing/non-numeric/integers incl. i64 extremes and >2^53/floats incl. 0.1, 1e300, subnormal, inf, NaN; "
                "non-trivial = more than one event (label not 'trivial') StreamAlphaNode (sliding and tumbling) under the injected clock: 6000 (quick) histories of clock advances and 2..12 events with timestamps around the clock (in order, late within the window, too old, in the future), foreign streams / types mixed in, caps 1,2,3,1000; observed per event: accepted?, buffered ids",
        "level_text": "WindowManager::process_event (expiry, max_windows) is proved for every arrival sequence: after every event the retained windows are aligned intervals with different starts in ascending order, hold only events of their interval, number at most max_windows, and the event just processed is in exactly one window, its aligned one (C12_manager_places_every_event_once). Proved for every window state, event, duration and cap: after record no retained event is older than the duration relative to the recorded event; the retained events are "
                "exactly the newest min(cap,n) young events; the recorded event is retained; tumbling windowing places events only in their aligned interval and keeps one window per interval; for whole streams (Proofs/WindowPlacementProofs.v, WindowedStream::new, any arrival order, any positive duration, any cap) every window of the result is the window of an aligned interval that received an event and holds exactly that interval's events in arrival order cut to the newest cap, starts are unique, every event's interval has its window - hence (cap not reached) each event lies in exactly one window, the aligned one. "
                "Aggregates (count/sum/average/min/max as IEEE-754 binary64 folds over exactly the retained events, bit-for-bit, via the axiom-free SpecFloat) and exactly-once placement are the "
                "Coq-defined monitor Window.ok evaluated on the implementation's observations after every event. StreamAlphaNode (Model/StreamAlpha.v, after repairs 8577f39 / d22a712; Session windows not modelled): compared per event with the code under the injected clock, and the Coq monitor checks on the observations: accepted iff inside the window of the clock, the buffer is a subsequence of the accepted events, holds nothing outside the window and (cap not reached) misses nothing inside it.",
        "level_note": "Trusted: Coq kernel; model of window.rs (after the record fix) and of WindowedStream::new (tumbling); Base/Float.v bit-level encoding of binary64 and Coq.Floats.SpecFloat as the "
                "meaning of f64 + and /; harness; extraction. StreamAlphaNode Session windows are not modelled; NaN payloads are canonicalised; f64::min/max on zeros of opposite sign not exercised. Axioms: none.",
        "trusted_base": ["Coq.Floats.SpecFloat (prec 53, emax 1024) as the semantics of Rust f64 addition/division/comparison; Iterator::sum::<f64>() folds from -0.0"],
        "assumptions": ["durations >= 1 ms; retention caps >= 1; timestamps below 2^62 so start+duration and now+1 do not overflow u64"],
    },
    "C14": {
        "num": 14,
        "vo": ["Properties/C14.vo"],
        "rule": "Manager histories: 2500 (quick) / 20000 (thorough) with 1..3 joins over 2..4 streams (a stream may feed several joins, on either side; one stream nobody consumes), events, watermarks, unregistration and late registration; deliveries observed through the handlers in order and compared with the model. for each of 1500 (quick) / 4000 (thorough) random pairs of event sequences (up to 3+3 quick, 4+4 thorough; 1..3 keys, keyless events, timestamps over 4..12 values, "
                "windows 0..5, 3 join conditions) ALL merges of the two arrival orders are run; every third merge additionally with watermark updates between arrivals (non-evicting and evicting); "
                "non-trivial = at least one pair emitted",
        "level_text": "StreamJoinManager: for joins registered under different ids over two different streams each, and ANY traffic (events of any streams, watermarks, any order), the pairs handed to a join's handler are exactly what its node emits on the join's own projection of the traffic (C14_manager_delivers_projection); until an eviction that is the reference join of the events of its two streams (C14_manager_join_exact_until_eviction). Theorem for every join condition, window, number of events/keys and EVERY interleaving of the two streams' arrivals: the emitted pairs are a permutation of the reference join "
                "(each pair exactly once), hence interleaving-independent. Proved by a buffer invariant over the op list, now WITH watermark updates anywhere in the history (Proofs/JoinWmProofs.v): as long as no update finds an expired event "
                "the emitted pairs are exactly the reference join - the re-scan of update_watermark emits nothing (invariant: every satisfying buffered pair was emitted and flagged on both sides when its later event arrived) and the "
                "eviction pass returns buffers and flags unchanged. Histories in which something is evicted are covered by the Coq-defined monitor Join.ok (duplicate-free subset of the reference join) on the real "
                "StreamJoinNode, and by model-vs-code comparison of every emission.",
        "level_note": "Trusted: Coq kernel; model of stream_join_node.rs (Inner/TimeWindow; closures as parameters; event ids unique); harness; extraction. Theorem is partial w.r.t. watermark updates (named "
                "..._partial). Self-joins (one stream on both sides) are not generated. Axioms: none.",
        "trusted_base": [],
        "assumptions": ["event ids are unique per stream; window and timestamps in the code's own unit (duration.as_secs() vs raw timestamps)"],
    },
    "C15": {
        "num": 15,
        "vo": ["Properties/C15.vo"],
        "harness_timeout_quick": 420,
        "rule": "sequential: exhaustive all mutator sequences of length<=2 over 4 names x 3 saliences, length<=4 (quick; <=5 thorough) over 2 names x 3 saliences (add/remove/enable/disable/clear), "
                "random sequences of 3..8 ops incl. i32 extreme saliences; after every op the complete state (listing, lookup of all 4 names, version) is observed. Concurrent: 1500 (quick) / 40000 "
                "(thorough) histories of 3 threads x 4 ops on one shared Arc<KnowledgeBase> with cfg-guarded yield points between lock acquisitions; each history is checked for linearizability "
                "against the sequential specification by the Coq-defined search KB.lin (real-time order from one atomic counter). non-trivial = at least one rule stored / overlapping operations",
        "level_text": "Proved for every state/op (sequences of any length): duplicate add and every refused op change nothing; version never decreases and grows by one on every successful change; the listing "
                "is in descending salience in every reachable state; the lock acquisition order read from the source is one global order with `rules` first. The full sequential refinement is a theorem (Proofs/KBRefineProofs.v, simulation invariant Sim): for EVERY operation "
                "sequence the model shows, after every operation, exactly what the abstract specification shows (result, listing, lookup of every name, version) - lookup = the stored rule of that name, a duplicate refused "
                "without effect, listing = every stored rule once by salience descending and insertion order among equals (a strict total order; the code's stable sort of an already sorted vector plus one element is an insertion). "
                "Several threads at once is a theorem on a lock-level model (Model/KBConc.v, Proofs/KBConc*.v): threads run the methods as micro-steps (invoke, acquire each guard of the acquisition list the translator reads from the source, "
                "compute the sequential body on the cells as they are, write the changed cells back one cell per step, drop the guards one per step, respond) under EVERY schedule; proved: every quiescent history is linearizable with the results "
                "the threads really computed (C15_every_interleaving_linearizable), the cells equal the linearized state, the monitor accepts every such run, and no schedule deadlocks (C15_no_deadlock; one global ascending lock order). "
                "On the real threads linearizability is the Coq-defined checker KB.lin evaluated on the real KnowledgeBase under perturbed schedules (a monitor: the interleavings are "
                "produced by the real threads). The checker itself is proved correct (Proofs/KBLinProofs.v, C15_lin_checker_decides): with the fuel the monitor passes, lin answers true exactly when the observed events "
                "have a real-time-respecting permutation on which the sequential specification returns every observed result - an accepted run is linearizable and a linearizable run is never reported.",
        "level_note": "Trusted: Coq kernel; model of knowledge_base.rs; the lock-level model (a thread's own accesses to a cell inside its guard region normalised to read-at-compute / write-back-afterwards; a cell is reached only through its guard - Rust's typing; "
                "acquisition lists, guards held to the end and no unguarded access read from the source by consts.py); std RwLock excludes as modelled (writer alone, readers share; fairness not modelled); real OS schedules only sampled (partial: thread runtime). Axioms: none.",
        "trusted_base": ["std::sync::RwLock provides mutual exclusion; Vec::sort_by_key is a stable sort"],
        "assumptions": ["rules are identified by a tag stored in Rule.description"],
    },
    "C16": {
        "num": 16,
        "vo": ["Properties/C16.vo"],
        "rule": "exhaustive 23x23 value-pair matrix (ints, floats incl. 0.0/-0.0/NaN/-NaN/inf/0.1, numeric-looking and keyword-looking strings, booleans, arrays incl. nested -0.0/NaN, null) for alpha "
                "(index created before and after insert, dropped), beta (add a, lookup b) and memo (node constant a/b on fact sets a/b); random histories of 3..10 ops for alpha (insert/create/drop/filter on 2 fields), "
                "beta (add/remove/lookup), memo (2..10 evaluations over look-alike fact sets; for every ordered pair of pool values the same node on {f1:a,f2:b} and {f1:b,f2:a}) and the conclusion index (add enabled/disabled rules with 0..2 Set actions, remove, find with 9 operator spellings); "
                "non-trivial = label not 'trivial' Conclusion-index goals: field op literal with literals that contain operator characters ('a==b', \"<\", \">= 1\").",
        "level_text": "Proved: for EVERY history of insertions, index creations, drops and filters the alpha-memory answers are those of the index-free scan (all value shapes, NaN, signed zeros, nested arrays; by an invariant "
                "over all indexes: every bucket, filtered, is the scan, with index keys an equivalence that contains ==); Debug-equal values are interchangeable for ==; a memoised evaluation equals direct evaluation after any "
                "sequence of earlier evaluations. Beta lookup = exactly the live facts with that key, and conclusion-index completeness (every enabled rule that assigns the goal's field is proposed), are theorems too, for every history "
                "(Proofs/IndexBetaProofs.v); the same statements are the Coq-defined executable specifications in Index.ok evaluated on the real structures after every op, plus model-vs-code comparison.",
        "level_note": "Trusted: Coq kernel; models of alpha_memory_index.rs/memoization.rs after fixes c8e1e36/34a4ae3, of BetaMemoryIndex and ConclusionIndex; Debug rendering of FactValue injective except NaN; "
                "DefaultHasher collision-free (model compares the hashed sequences); SpecFloat for IEEE equality; harness; extraction. Axioms: none.",
        "trusted_base": ["std DefaultHasher treated as injective on the hashed byte sequences", "Debug for f64 is injective on non-NaN values"],
        "assumptions": ["floats cross the wire as 64-bit patterns", "conclusion-index goals have the form `field op literal` with the operator spellings of extract_field_from_goal"],
    },
    "C19": {
        "num": 19,
        "vo": ["Properties/C19.vo"],
        "harness_timeout": 1500,
        "rule": "700 (quick) / 2500 (thorough) random rule sets of 1..24 rules (And/Or/Not trees of integer comparisons to depth 3 over 5 fields, one of them always missing; salience ties; ~10% disabled) x "
                "max_threads 1..16 x min_rules_per_thread 1..4 x parallelism on/off, each executed 6 (quick) / 10 (thorough) times with the cfg-guarded yield/sleep points in the worker loop enabled; observed per run: "
                "evaluated count, fired count, the (rule, verdict) set; before every second observed run the SAME engine executes a decoy knowledge base of the same name, size, version counter and rule names "
                "with negated conditions and reversed saliences (state remembered by the engine between calls shows up in the observed run); non-trivial = at least 2 rules Contention stream: one salience level, 4..16 threads, more rules than threads (250 quick / 1500 thorough cases).",
        "level_text": "Theorem for every rule set, facts, thread count >= 1, chunking parameters and EVERY order in which worker threads deliver their results: the parallel contexts are a permutation of evaluating the "
                "enabled rules one by one (same set of verdicts, same evaluated and fired counts); chunking partitions each salience level and the levels partition the enabled rules. The harness compares the real "
                "engine's verdict sets and counts with the sequential specification under perturbed schedules.",
        "level_note": "Trusted: Coq kernel; model of parallel.rs (verdicts are a pure function of rule and facts: actions other than custom functions are no-ops and evaluation only reads Facts); thread spawn/join and "
                "the mutex are the OS/std runtime (partial: the proof covers every delivery order of the modelled worker results, the real scheduler is only sampled); harness; extraction. Axioms: none.",
        "trusted_base": ["std::thread::spawn/join and std::sync::Mutex behave as specified (every worker's results are appended exactly once)"],
        "assumptions": ["max_threads >= 1 (0 divides by zero, outside the quantifier); rules of the typed core (no custom functions that write facts)"],
    },
    "C20": {
        "num": 20,
        "vo": ["Properties/C20.vo"],
        "rule": "random histories of 3..10 ops (put / put_with_ttl 0..5ms / update / delete / clock advance 0..10ms / checkpoint / restore of any issued id) over 3 keys with max_checkpoints 1,2,3,10 under the "
                "injected clock (so several checkpoints share a millisecond); every third history also injects crashes at the 5 crash points of the real checkpoint writer (inside write_all: nothing / strict prefix / "
                "all bytes), followed by a clock advance; a fixed family covers every crash point x restore of the interrupted and of the earlier checkpoint; 40 (quick) / 400 (thorough) truncation sweeps restore from "
                "EVERY truncation offset of a real state.json. After every op: result, get of 3 keys, len, listed checkpoints, status/content of every checkpoint directory. non-trivial = at least one checkpoint",
        "level_text": "Proved on the model, for every history: retained checkpoint ids are pairwise distinct (also within one millisecond, also after retention); a retained checkpoint's file is never changed by any later "
                "operation incl. checkpoints interrupted at any crash point; checkpoint-then-anything-then-restore reads back exactly the unexpired keys and values of checkpoint time; restoring an interrupted checkpoint "
                "fails with the store untouched or yields its complete state. The model is tied to state.rs by per-op comparison under the injected clock and the real crash points; the Coq-defined snapshot specification "
                "State.ok is evaluated on the implementation's observations; the byte-level assumption (a strict prefix of the JSON never parses) is exercised on every truncation offset of real files.",
        "level_note": "Trusted: Coq kernel; model of state.rs after fixes 72cdb63/4a8a109; abstract file system (file = empty / strict prefix / complete JSON; no write reordering, fsync or directory-entry durability: "
                "partial w.r.t. real file systems); serde_json round-trip for integer and string values; hooks now_ms/crash_at; harness; extraction. Axioms: none.",
        "trusted_base": ["serde_json: a strict prefix of a serialized map never parses; the complete document parses back to the same map (exercised by the truncation sweep)"],
        "assumptions": ["a process interrupted during a checkpoint does not take another checkpoint within the same millisecond (the harness advances the clock after a crash)"],
    },
    "C13": {
        "num": 13,
        "vo": ["Properties/C13.vo"],
        "rule": "exhaustive timestamp sequences (len<=4 over 4 values quick; <=5 over 5 thorough) x 8 watermark strategies x 6 late "
                "strategies (quick: a rotating sixth for len>=3), plus random histories to 12 events incl. u64-range timestamps; "
                "a case is non-trivial when the watermark advanced and at least one event was late (label not 'trivial'/'adv-only' counted "
                "separately in label_histogram); distinct = distinct case text",
        "level_text": "Theorems for every history and every strategy pair (watermark monotone, exact bounded-out-of-orderness value, late-iff-below with the outcome table, accounting), proved by induction over the event list on a Gallina model of watermark.rs; the model is tied to the code by per-step differential comparison of all observable state, and the Coq-defined monitor (proved to accept every model run) is evaluated on the implementation's own observations.",
        "level_note": "Trusted: Coq kernel; the hand-written model of watermark.rs; harness/generators; extraction (ExtrOcamlBasic). Periodic strategy's processing-time clock is an oracle. Axioms: none (Closed under the global context).",
        "trusted_base": ["SystemTime::now processing-time oracle for WatermarkStrategy::Periodic (exercised with interval 0 and 1h only)"],
        "assumptions": ["timestamps are u64 and never added, so unbounded N with truncated subtraction is exact",
                        "clear_side_output is not part of the histories (as in the property's accounting sentence)"],
    },
}
