#!/usr/bin/env python3
"""tools/mkpins.py Cxx — derive tools/pins/Cxx.v from coq/Properties/Cxx.v (run by hand when a
statement is added; the result is committed and is what every check compares against)."""
import re, sys, os
ROOT = os.path.dirname(os.path.dirname(os.path.abspath(__file__)))
pid = sys.argv[1]
allow = sys.argv[2:]  # allowed axiom names
src = open(os.path.join(ROOT, "coq", "Properties", pid + ".v")).read()
# strip comments
out, depth, i = [], 0, 0
while i < len(src):
    if src.startswith("(*", i): depth += 1; i += 2; continue
    if depth and src.startswith("*)", i): depth -= 1; i += 2; continue
    if not depth: out.append(src[i])
    i += 1
txt = "".join(out)
head = []
for m in re.finditer(r"^((?:From|Require|Import|Open Scope|Local Open Scope)\b[^\n]*\.)\s*$", txt, re.M):
    head.append(m.group(1))
head = [h if "Properties." + pid in h or not h.startswith("From RRE") else h for h in head]
body = []
for m in re.finditer(r"Theorem\s+(\w+)\s*:(.*?)\.\s*Proof\.", txt, re.S):
    body.append("Check (%s : %s)." % (m.group(1), m.group(2).strip()))
pin = "(* allow-axioms: %s *)\n" % " ".join(allow) + "\n".join(head) + "\nFrom RRE Require Import Properties.%s.\n" % pid + "\n".join(body) + "\n"
open(os.path.join(ROOT, "tools", "pins", pid + ".v"), "w").write(pin)
print("pins/%s.v: %d theorems" % (pid, len(body)))
