import sys
d='/verif/.work/q'
impl=open(d+"/impl.out").read().split("\n"); model=[l.split("\t")[0] for l in open(d+"/model.out").read().split("\n") if l]
def differs(im, mo):
    if mo.endswith(" (-997))"): return not im.startswith(mo[:-len("(-997))")])
    return im != mo
print(sum(1 for i,m in enumerate(model) if m not in ("(-998)","(-999)") and differs(impl[i], m)), "of", sum(1 for m in model if m not in ("(-998)","(-999)")), "predicted")
