#!/usr/bin/env python3
"""Build backward-chaining corpus cases (encodings of coq/Model/Backward.v)."""
import sys, os
sys.path.insert(0, os.path.dirname(__file__))
import sxlib
def S(t): return [ord(c) for c in t]
def V(x):
    if isinstance(x, bool): return [3, 1 if x else 0]
    if isinstance(x, int): return [0, x]
    return [2, S(x)]
OPS={"==":0,"!=":1,">":2,">=":3,"<":4,"<=":5}
def G(c):
    if c[0] in ("and","or"): return [1 if c[0]=="and" else 2, G(c[1]), G(c[2])]
    return [0, S(c[0]), OPS[c[1]], V(c[2])]
def goal(c): return [S(c[0]), OPS[c[1]], V(c[2])]
def case(strategy, md, maxsol, det, rules, facts, ops):
    return [strategy, md, maxsol, 1 if det else 0,
            [[G(c), [[S(k), V(v)] for k, v in sets]] for c, sets in rules],
            [[S(k), V(v)] for k, v in facts],
            [[0, goal(o[1])] if o[0]=="ask" else ([1, S(o[1]), V(o[2])] if o[0]=="set" else [2, S(o[1])]) for o in ops]]
if __name__ == "__main__":
    which = sys.argv[1]
    c9 = [
     ("# 3bf… shared solutions list: sub-goal F0 proven, the rule then concludes F3 = 99, goal F3 == 8 was reported provable",
      case(0, 3, 1, True, [(("F0","==",True), [("F3",99)]), (("F1","==",True), [("F0",True)])], [("F1",True)], [("ask",("F3","==",8))])),
     ("# integer goal literal: F3 = 8 derived, goal F3 == 8 was never recognised (literal read as 8.0)",
      case(0, 3, 1, True, [(("F0","==",True), [("F3",8)])], [("F0",True)], [("ask",("F3","==",8))])),
     ("# iterative deepening panicked (usize underflow, debug builds) when the executing search explored more goals than the probe",
      case(2, 3, 1, True, [(("F0","==",True), [("F3",8)]), (("F1","==",True), [("F0",True)])], [("F1",True)], [("ask",("F3","==",8))])),
    ]
    c11 = [
     ("# memo table keyed by the query text only: provable on {F0}, then F0 removed, the same query was answered from the cache",
      case(0, 3, 1, True, [(("F0","==",True), [("F1",True)])], [("F0",True)], [("ask",("F1","==",True)),("del","F1"),("del","F0"),("ask",("F1","==",True))])),
     ("# ... and a cached failure hid a later success",
      case(0, 3, 1, True, [(("F0","==",True), [("F1",True)])], [], [("ask",("F1","==",True)),("set","F0",True),("ask",("F1","==",True))])),
    ]
    c10 = [
     ("# a sub-goal's derived facts survived the failure of the enclosing candidate (its undo frame was never committed): F0 stayed set after a failed query",
      [1, case(0, 3, 1, True, [(("and",("F0","==",True),("F2","==",True)), [("F3",8)]), (("F1","==",True), [("F0",True)])], [("F1",True)], [("ask",("F3","==",8))])]),
     ("# breadth-first search left the facts derived by fired candidates after a failed query",
      [1, case(1, 3, 1, True, [(("F1","==",True), [("F3",99)])], [("F1",True)], [("ask",("F3","==",8))])]),
    ]
    for c, l in {"C09": c9, "C11": c11, "C10": c10}[which]: print(c); print(sxlib.show(l))
