(* Generic driver around the extracted models.
   usage: model_runner <id> <cases.txt> [<impl.out>]
   For every line of cases.txt prints:  <model observation sx> TAB <ok on impl obs> TAB <ok on model obs>
   (ok on impl obs is "-" when no impl file is given). *)
module BZ = Z
open Model_gen

let rec pos_of_z (z : BZ.t) : positive =
  if BZ.equal z BZ.one then XH
  else if BZ.is_even z then XO (pos_of_z (BZ.shift_right z 1))
  else XI (pos_of_z (BZ.shift_right z 1))

let coqz_of_z (z : BZ.t) : z =
  let s = BZ.sign z in
  if s = 0 then Z0 else if s > 0 then Zpos (pos_of_z z) else Zneg (pos_of_z (BZ.neg z))

let rec z_of_pos (p : positive) : BZ.t =
  match p with
  | XH -> BZ.one
  | XO q -> BZ.shift_left (z_of_pos q) 1
  | XI q -> BZ.succ (BZ.shift_left (z_of_pos q) 1)

let z_of_coqz (z : z) : BZ.t =
  match z with Z0 -> BZ.zero | Zpos p -> z_of_pos p | Zneg p -> BZ.neg (z_of_pos p)

(* parser: atoms are decimal integers (optional '-'), lists are ( ... ) *)
let parse_sx (s : string) : sx =
  let n = String.length s in
  let i = ref 0 in
  let skip () = while !i < n && (s.[!i] = ' ' || s.[!i] = '\t' || s.[!i] = '\r') do incr i done in
  let rec item () : sx =
    skip ();
    if !i >= n then failwith "sx: unexpected end";
    if s.[!i] = '(' then begin
      incr i;
      let acc = ref [] in
      let fin = ref false in
      while not !fin do
        skip ();
        if !i >= n then failwith "sx: unclosed";
        if s.[!i] = ')' then (incr i; fin := true) else acc := item () :: !acc
      done;
      L (List.rev !acc)
    end else begin
      let st = !i in
      if s.[!i] = '-' then incr i;
      while !i < n && s.[!i] >= '0' && s.[!i] <= '9' do incr i done;
      if !i = st then failwith ("sx: bad char at " ^ string_of_int st);
      A (coqz_of_z (BZ.of_string (String.sub s st (!i - st))))
    end in
  let r = item () in
  skip ();
  if !i <> n then failwith "sx: trailing input";
  r

let rec print_sx (b : Buffer.t) (x : sx) : unit =
  match x with
  | A z -> Buffer.add_string b (BZ.to_string (z_of_coqz z))
  | L l ->
      Buffer.add_char b '(';
      List.iteri (fun k y -> if k > 0 then Buffer.add_char b ' '; print_sx b y) l;
      Buffer.add_char b ')'

let () =
  let id = coqz_of_z (BZ.of_string Sys.argv.(1)) in
  let cases = open_in Sys.argv.(2) in
  let impl = if Array.length Sys.argv > 3 then Some (open_in Sys.argv.(3)) else None in
  let b = Buffer.create 65536 in
  (try
     while true do
       let line = input_line cases in
       let c = parse_sx line in
       let m = run_by_id id c in
       Buffer.clear b;
       print_sx b m;
       Buffer.add_char b '\t';
       (match impl with
        | None -> Buffer.add_char b '-'
        | Some ic ->
            let il = input_line ic in
            let r =
              if String.length il > 0 && il.[0] = '!' then BZ.zero   (* impl-side abnormal outcome marker *)
              else (try z_of_coqz (ok_by_id id c (parse_sx il)) with Failure _ -> BZ.zero) in
            Buffer.add_string b (BZ.to_string r));
       Buffer.add_char b '\t';
       Buffer.add_string b (BZ.to_string (z_of_coqz (ok_by_id id c m)));
       Buffer.add_char b '\n';
       print_string (Buffer.contents b)
     done
   with End_of_file -> ());
  flush stdout
